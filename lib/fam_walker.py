"""Shared machinery of the Walker family (C02, C04): spec/Walker.tla, Gen_Walker.tla, Trace_Walker.tla and
harness/cmd/vh/walker.go.

model -> code : TLC prints every scenario of a window with Expected (the set of allowed clause sequences per carrier
                style); `vh walker-replay` runs the real walkers; results are compared for equality / membership here.
code -> model : `vh walker-record` records  scn probe* ret  traces of the real walkers (probe functions registered per call
                see the live error buffer); TLC validates each trace against Trace_Walker.tla.
"""
import json
import os
import re
import subprocess
from concurrent.futures import ThreadPoolExecutor

from . import common
from .common import MachineryError

CONSTS = dict(Mode='"none"', Alpha='"probe"', Tier='"quick"', NSample=0, Depth=1, Width=1)


def write_cfg(ctx, name, spec, consts, invariants=None, props=None, extra=""):
    c = dict(CONSTS)
    c.update(consts)
    txt = "CONSTANTS\n" + "".join("  %s = %s\n" % (k, v) for k, v in c.items())
    txt += "SPECIFICATION %s\nCHECK_DEADLOCK FALSE\n" % spec
    if invariants:
        txt += "INVARIANTS " + " ".join(invariants) + "\n"
    if props:
        txt += "PROPERTIES " + " ".join(props) + "\n"
    txt += extra
    open(os.path.join(ctx.spec_dir(), name + ".cfg"), "w").write(txt)
    return name


MC_INV = ["PrefixOK", "TerminalOK", "NilIffNone", "NoStuck", "StackSane"]
MC_PROP = ["AppendOnly", "ScnFixed"]


def q(s):
    return '"%s"' % s


ACTIONS = ["NilRoot", "StartRoot", "EnterObject", "SkipField", "NextField", "LeaveObject", "NextRule", "SkipEmptyItem", "UnknownRule",
           "Required", "Exist", "GroupMember", "ZeroSkip", "CallFn", "Descend", "NextElem", "NextEntry", "Trim", "Return"]
_RE_COV = re.compile(r"^<(\w+) line \d+, col \d+ to line \d+, col \d+ of module Walker>: (\d+):(\d+)")


def mc(ctx, name, consts, workers=4, coverage=False, timeout=1800, unreachable=()):
    """B => A on a window (mechanism refines the contract). With coverage=True every action of the mechanism except those the
    window cannot reach by construction (`unreachable`) must have been taken, else the run is vacuous (exit 2)."""
    write_cfg(ctx, name, "Spec", consts, MC_INV, MC_PROP)
    res = ctx.tlc("Walker", name, workers=workers, coverage=coverage, timeout=timeout)
    outs = sorted(f for f in os.listdir(ctx.work) if f.startswith("tlc-%s-" % name) and f.endswith(".out"))
    outp = ctx.path(outs[-1])
    if coverage:
        counts = {}
        for line in open(outp, errors="replace"):
            m = _RE_COV.match(line)
            if m:
                counts[m.group(1)] = max(counts.get(m.group(1), 0), int(m.group(3)))
        zero = [a for a in ACTIONS if counts.get(a, 0) == 0 and a not in unreachable]
        if zero or len(counts) < 10:
            raise MachineryError("vacuous: actions never taken in %s: %s (coverage lines parsed: %d)" % (name, zero, len(counts)))
        res.action_counts = {a: counts.get(a, 0) for a in ACTIONS}
        ctx.log("coverage %s: %s" % (name, res.action_counts))
    return res


def gen(ctx, name, consts, timeout=1800):
    """Scenarios of a window + Expected; returns (vectors, markers)."""
    write_cfg(ctx, name, "GenSpec", consts)
    res = ctx.tlc("Gen_Walker", name, workers=1, timeout=timeout, count=False)
    ms = res.vecs.get("MARKERS")
    scs = res.vecs.get("SCN", [])
    if not ms or not scs:
        raise MachineryError("Gen_Walker/%s emitted no scenarios" % name)
    return [dict(scn=s["scn"], exp=s["exp"], win=name) for s in scs], ms[0]


def gen_many(ctx, jobs, par=3):
    """jobs: list of (name, consts); runs the emitters side by side."""
    with ThreadPoolExecutor(max_workers=par) as ex:
        outs = list(ex.map(lambda j: gen(ctx, j[0], j[1]), jobs))
    vecs, markers = [], None
    for v, m in outs:
        vecs += v
        markers = m
    for i, v in enumerate(vecs):
        v["id"] = i
    return vecs, markers


def markers_file(ctx, markers):
    p = ctx.path("walker-markers.json")
    json.dump(markers, open(p, "w"))
    return p


def build_gen_vh(ctx, vh, vecs, name="vhgen"):
    """Go source with one set of named types per distinct type table, compiled into a second harness binary."""
    src = ctx.path(name + "-in.ndjson")
    common.write_ndjson(src, [dict(id=v["id"], scn=v["scn"]) for v in vecs])
    r = ctx.run_vh(vh, ["walker-genprog"], stdin_path=src)
    code = r.stdout
    ntypes = code.count("\ntype ")
    return ctx.build_vh(gen_files={"cmd/vh/walker_gen.go": code}, name=name), ntypes


ALT_SEP = " ## "      # every second shard runs with valid.ErrEndFlag set to this text (the separator is a variable of the library)


def replay(ctx, vh, vecs, mfile, gen=False, carriers=None, shards=4, sep=None):
    """Runs the real walkers on every vector; returns the list of result records."""
    def one(k):
        part = vecs[k::shards]
        if not part:
            return []
        ip, op = ctx.path("wvec-%d-%d.ndjson" % (id(vecs) % 100000, k)), ctx.path("wres-%d-%d.ndjson" % (id(vecs) % 100000, k))
        common.write_ndjson(ip, [dict(id=v["id"], scn=v["scn"]) for v in part])
        args = ["walker-replay", "-markers", mfile]
        if gen:
            args.append("-gen")
        if carriers:
            args += ["-carriers", ",".join(carriers)]
        use = sep if sep is not None else (ALT_SEP if k % 2 == 1 else "")
        ctx.run_vh(vh, args, stdin_path=ip, stdout_path=op, extra_env={"VERIF_ENDFLAG": use})
        return common.read_ndjson(op)
    with ThreadPoolExecutor(max_workers=shards) as ex:
        outs = list(ex.map(one, range(shards)))
    return [r for o in outs for r in o]


# ------------------------------------------------------------------ comparison (equality / membership only)

def rules_of(scn):
    for t in scn["types"]:
        for f in t["fields"]:
            for r in f["rules"]:
                yield f, r


def has_two_sided(scn):
    """a to/oto rule whose bounds exclude everything: the class of defect D2 (both sides of one rule violated at once)"""
    return any((r["key"] == "to" and r["lo"] > r["hi"]) or (r["key"] == "oto" and r["lo"] >= r["hi"]) for _, r in rules_of(scn))


def has_nil_inside(v, top=True):
    """nil root pointer, nil inner pointer of a pointer chain, nil element of a collection: the class of defect D4"""
    k = v["k"]
    if k == "ptr":
        if v["nil"]:
            return top
        inner = v["kids"][0]
        if inner["k"] == "ptr" and inner["nil"]:
            return True
        return has_nil_inside(inner, top)
    if k in ("slice", "array", "map"):
        for e in v["kids"]:
            if e["k"] == "ptr" and e["nil"]:
                return True
            if has_nil_inside(e, False):
                return True
        return False
    if k == "struct":
        return any(has_nil_inside(e, False) for e in v["kids"])
    return False


def brief(scn):
    ts = []
    for t in scn["types"]:
        ts.append("%s{%s}" % (t["name"], "; ".join("%s %s `%s`" % (f["name"], tystr(f["ty"]), ",".join(rule_text(r) for r in f["rules"])) for f in t["fields"])))
    return " ".join(ts) + " root=" + valstr(scn["root"])


def rule_text(r):
    if r.get("text") is not None and (r.get("text") or r["key"] == ""):
        return r.get("text", "")
    k = r["key"]
    base = k
    if k in ("to", "oto"):
        base = "%s=%d~%d" % (k, r["lo"], r["hi"])
    elif k in ("ge", "gt", "eq", "noeq"):
        base = "%s=%d" % (k, r["lo"])
    elif k in ("le", "lt"):
        base = "%s=%d" % (k, r["hi"])
    return base + ("|" + r["msg"] if r["msg"] else "")


def tystr(t):
    k = t["k"]
    if k == "struct":
        return "T%d" % t["n"]
    if k == "ptr":
        return "*" + tystr(t["of"][0])
    if k == "slice":
        return "[]" + tystr(t["of"][0])
    if k == "array":
        return "[%d]%s" % (t["n"], tystr(t["of"][0]))
    if k == "map":
        return "map[string]" + tystr(t["of"][0])
    return k


def valstr(v):
    k = v["k"]
    if k in ("int", "str", "time"):
        return str(v["n"])
    if k == "ptr":
        return "nil" if v["nil"] else "&" + valstr(v["kids"][0])
    if k in ("slice", "map") and v["nil"]:
        return "nil" + k
    if k == "struct":
        return "{" + " ".join(valstr(e) for e in v["kids"]) + "}"
    return "[" + " ".join(valstr(e) for e in v["kids"]) + "]"


def judge(vec, r):
    """None if the real result is one the contract allows, else a short reason. Pure equality / membership."""
    exp = vec["exp"][r["style"]]
    if r["kind"] == "panic":
        return "panic"
    if exp["any"]:
        return None
    got = r["clauses"]
    if r["kind"] == "nil":
        if got:
            return "nil-with-clauses"
        return None if [] in exp["seqs"] else "nil-but-violations"
    if not r.get("trailOK", True):
        return "trailing-separator"
    if not got:
        return "error-without-clause"
    if got in exp["seqs"]:
        return None
    want = exp["seqs"][0]
    if len(got) > len(want):
        return "extra-clause"
    if len(got) < len(want):
        return "missing-clause"
    if sorted(map(json.dumps, got)) == sorted(map(json.dumps, want)):
        return "order"
    return "wrong-clause"


def compare(ctx, vecs, results, src, markers=None):
    """Feeds mismatches to ctx.candidate; returns counters."""
    by = {v["id"]: v for v in vecs}
    n = nontriv = 0
    reasons = {}
    for r in results:
        v = by[r["id"]]
        n += 1
        exp = v["exp"][r["style"]]
        if exp["any"] or exp["seqs"][0]:
            nontriv += 1
        why = judge(v, r)
        if why is None:
            continue
        reasons[why] = reasons.get(why, 0) + 1
        sig = dict(src=src, what=why, style=r["style"], two_sided=has_two_sided(v["scn"]), nil_inside=has_nil_inside(v["scn"]["root"]))
        desc = "%s/%s %s: %s | expected %s | real %s %s" % (
            r["style"], r["carrier"], why, brief(v["scn"]),
            "any result" if exp["any"] else json.dumps(exp["seqs"][0], ensure_ascii=False) + (" (+%d orders)" % (len(exp["seqs"]) - 1) if len(exp["seqs"]) > 1 else ""),
            r["kind"], r.get("panic") or r.get("raw", ""))
        ctx.candidate(sig, desc, dict(kind="vector", scn=v["scn"], exp=v["exp"], style=r["style"], carrier=r["carrier"], markers=markers,
                                               sep="" if r.get("sep", "; ") == "; " else r["sep"]))
    return n, nontriv, reasons


# ------------------------------------------------------------------ traces

def record(ctx, vh, mfile, prefix, shards=4, n=0, nils=False, stdin_vecs=None, gen=False, carriers=None):
    args = ["walker-record", "-markers", mfile, "-out", ctx.path(prefix), "-shards", str(shards)]
    ip = None
    if stdin_vecs is not None:
        ip = ctx.path(prefix + "-in.ndjson")
        common.write_ndjson(ip, [dict(id=v.get("id", 0), scn=v["scn"]) for v in stdin_vecs])
        args.append("-stdin")
    else:
        args += ["-n", str(n)]
    if nils:
        args.append("-nils")
    if gen:
        args.append("-gen")
    if carriers:
        args += ["-carriers", ",".join(carriers)]
    ctx.run_vh(vh, args, stdin_path=ip)
    files = [ctx.path("%s_%d.ndjson" % (prefix, i)) for i in range(shards)]
    return [f for f in files if os.path.exists(f) and os.path.getsize(f) > 0]


def validate(ctx, files, workers=4, max_rounds=3):
    """TLC judges each trace file; on rejection the scn..ret slice containing the failing line is cut off, reported, and
    the rest of the file is validated again (so every rejected slice is found). Returns (traces, events, probes, rejects)."""
    def slice_at(part, i):
        s = i
        while s > 0 and part[s]["e"] != "scn":
            s -= 1
        e = i + 1
        while e < len(part) and part[e]["e"] != "scn":
            e += 1
        return s, e

    def one(f):
        evs = common.read_ndjson(f)
        rejects = []
        start = 0
        rnd = 0
        unjudged = 0
        while start < len(evs):
            part = evs[start:]
            fp = f if start == 0 else "%s.part%d" % (f, rnd)
            if start:
                common.write_ndjson(fp, part)
            res = ctx.tlc("Trace_Walker", "Trace_Walker", workers=1, env={"TRACE": fp},
                          tag="tw-%s-%d" % (os.path.basename(f).replace(".", "_"), rnd), expect_ok=False, timeout=900)
            rej = res.vecs.get("REJECT")
            for line in sorted({p["line"] for p in res.vecs.get("PANIC", [])}):
                if rej and line >= rej[0]["line"]:
                    continue
                s, e = slice_at(part, line - 1)
                rejects.append((part[s:e], line - 1 - s))
            if res.ok and not rej:
                break
            if not rej:
                raise MachineryError("trace validation of %s failed without a verdict:\n%s" % (fp, res.raw[-3000:]))
            i = min(rej[0]["line"], len(part)) - 1      # 1-based index into part
            s, e = slice_at(part, i)
            rejects.append((part[s:e], i - s))
            start += e
            rnd += 1
            if rnd >= max_rounds:            # one verdict per slice needs one TLC run per rejected slice: bounded
                unjudged = sum(1 for x in evs[start:] if x["e"] == "scn")
                break
        return evs, rejects, unjudged
    with ThreadPoolExecutor(max_workers=workers) as ex:
        outs = list(ex.map(one, files))
    traces = events = probes = recorded = 0
    allrej = []
    sample = None
    for evs, rejects, unjudged in outs:
        events += len(evs)
        traces += sum(1 for e in evs if e["e"] == "scn") - unjudged
        recorded += sum(1 for e in evs if e["e"] == "scn")
        if unjudged:
            ctx.note("%d recorded traces were not judged (more than %d rejected slices in one file)" % (unjudged, max_rounds))
        probes += sum(1 for e in evs if e["e"] == "probe")
        allrej += rejects
        if sample is None:
            for i, e in enumerate(evs):
                if e["e"] == "probe" and e["buf"]:
                    sample = [dict(e="probe", fp=e["fp"], rule=e["rule"], val=e["val"], buf=e["buf"])]
                    break
    ctx.cov["traces_recorded"] = ctx.cov.get("traces_recorded", 0) + recorded
    return traces, events, probes, allrej, sample


def trace_candidates(ctx, rejects, src, markers=None):
    for sl, pos in rejects:
        scn = sl[0]["scn"]
        bad = sl[pos] if pos < len(sl) else {}
        what = "panic" if any(e["e"] == "panic" for e in sl) else "trace-" + bad.get("e", "end")
        sig = dict(src=src, what=what, style=sl[0]["style"], two_sided=has_two_sided(scn), nil_inside=has_nil_inside(scn["root"]))
        shown = {k: bad.get(k) for k in ("e", "fp", "rule", "val", "buf", "kind", "clauses", "msg") if bad.get(k) not in (None, "", [])}
        desc = "%s/%s recorded run not allowed by the model at event %d (%s): %s | event %s" % (
            sl[0]["style"], sl[0]["carrier"], pos, what, brief(scn), json.dumps(shown, ensure_ascii=False)[:400])
        ctx.candidate(sig, desc, dict(kind="trace", events=sl, failing=pos, markers=markers))


# ------------------------------------------------------------------ replay of a saved violation

def replay_saved(ctx, vh):
    r = json.load(open(ctx.replay))["replay"]
    markers = r["markers"]
    mfile = markers_file(ctx, markers)
    if r["kind"] == "vector":
        vec = dict(id=0, scn=r["scn"], exp=r["exp"])
        use = vh
        if r["carrier"] == "gen":
            use, _ = build_gen_vh(ctx, vh, [vec], name="vhgen-replay")
        res = replay(ctx, use, [vec], mfile, gen=r["carrier"] == "gen", carriers=[r["carrier"]], shards=1, sep=r.get("sep", ""))
        res = [x for x in res if x["style"] == r["style"]]
        if not res:
            raise MachineryError("replay produced no result")
        compare(ctx, [vec], res, "replay", markers)
    else:
        ev0 = r["events"][0]
        scn = dict(ev0["scn"])
        scn["styles"] = [ev0["style"]]
        vec = dict(id=0, scn=scn)
        use = vh
        if ev0["carrier"] == "gen":
            use, _ = build_gen_vh(ctx, vh, [vec], name="vhgen-replay")
        files = record(ctx, use, mfile, "replaytrace", shards=1, stdin_vecs=[vec], gen=ev0["carrier"] == "gen", carriers=[ev0["carrier"]])
        _, _, _, rej, _ = validate(ctx, files, workers=1)
        trace_candidates(ctx, rej, "replay", markers)
    return ctx.finish("model_checking", dict(evaluations=1, distinct_nontrivial=0, samples=[r], replay=True))


def summarise(ctx):
    """one line per class of violation signature (so that a red run can be read at a glance)"""
    cnt = {}
    for v in ctx.violations:
        g = v["sig"]
        k = "what=%s two_sided_interval=%s nil_inside=%s" % (g.get("what"), g.get("two_sided"), g.get("nil_inside"))
        cnt[k] = cnt.get(k, 0) + 1
    for k in sorted(cnt):
        ctx.log("violation class: %s x%d" % (k, cnt[k]))
    # replay files are written for the first 20 only: put one of every (source, kind, style) class first
    seen, first, rest = set(), [], []
    for v in ctx.violations:
        g = v["sig"]
        key = (g.get("src"), g.get("what"), g.get("style"), v["replay"].get("carrier"))
        (rest if key in seen else first).append(v)
        seen.add(key)
    ctx.violations[:] = first + rest
    return cnt
