"""Shared machinery of the "formats" family (C05): record files, sharded constant-mode judging by TLC, classification.

Python only moves data: the harness generates inputs and runs the real rules, TLC (spec/Judge_Formats.tla over
spec/Formats.tla) decides every record.  Judge codes: 0 satisfied as required, 1 violated as required, 2 documentation
silent (either verdict allowed), 3 the code reports a violation for a member, 4 the code accepts a non-member,
5 harness inconsistency (never a verdict).

Record files are streamed (a thorough run has about 10^6 records); only counters and the offending records are kept.
"""
import json
import os
from concurrent.futures import ThreadPoolExecutor

from . import common
from .common import MachineryError

VEC_FIELDS = ("rule", "arg", "kind", "nk", "gotype", "input", "elems", "pat", "src")
ALL_RULES = ["in", "include", "phone", "email", "idcard", "ip", "ipv4", "ipv6", "year", "year2month", "date", "datetime",
             "int", "ints", "float", "re", "unique", "json", "prefix", "suffix", "file", "dir"]


def text_of(cps):
    return "".join(chr(c) for c in cps)


def rule_text(rec):
    return rec["rule"] + ("=" + text_of(rec["arg"]) if rec["arg"] else "")


def show(rec):
    """human-readable one-liner of a record"""
    if rec["kind"] == "list":
        val = "%s{%s}" % (rec["gotype"], ", ".join(repr(text_of(e)) for e in rec["elems"]))
    elif rec["kind"] == "num":
        val = "%s(%s)" % (rec["gotype"], text_of(rec["input"]))
    else:
        val = repr(text_of(rec["input"]))
    return "Var(%s, %r)" % (val, rule_text(rec))


def count_lines(path):
    n = 0
    with open(path, "rb") as f:
        for _ in f:
            n += 1
    return n


def judge_files(ctx, files, tag="judge", parallel=4):
    """Judge every record file with TLC in constant mode (at most `parallel` processes at a time).
    Returns one list of judge codes per file."""
    def one(i):
        n = count_lines(files[i])
        if n == 0:
            return []
        outp = ctx.path("%s-%d.codes.json" % (tag, i))
        res = ctx.tlc("Judge_Formats", "Judge_Formats", workers=1, env={"FILE": files[i], "OUT": outp},
                      tag="%s-%d" % (tag, i), timeout=3000, heap="5g", count=False)
        judged = res.vecs.get("JUDGED")
        if not judged or judged[0]["n"] != n or not os.path.exists(outp):
            raise MachineryError("judge of %s incomplete:\n%s" % (files[i], res.raw[-2000:]))
        codes = json.load(open(outp))
        if len(codes) != n or any(c not in (0, 1, 2, 3, 4, 5) for c in codes):
            raise MachineryError("judge of %s returned %d codes for %d records" % (files[i], len(codes), n))
        return codes

    with ThreadPoolExecutor(max_workers=parallel) as ex:
        return list(ex.map(one, range(len(files))))


def vec_of(rec):
    return {k: rec[k] for k in VEC_FIELDS}


class Tally:
    """Streams (record, code) pairs: per-rule statistics, distinct non-trivial cases, samples, offending records."""

    def __init__(self):
        self.stats = {}
        self.bad = {}          # (rule, what) -> [count, [records...]]
        self.distinct = set()
        self.samples = {}
        self.silent_sample = None
        self.n = 0
        self.codes = [0] * 6

    def add(self, r, c):
        self.n += 1
        self.codes[c] += 1
        st = self.stats.setdefault(r["rule"], dict(records=0, satisfied=0, violated=0, silent=0, broken=0, near_misses=0))
        st["records"] += 1
        if c == 5:
            raise MachineryError("harness inconsistency on record %s: %s" % (r["id"], show(r)))
        what = None
        if r.get("panic"):
            what = "panic"
        elif c == 0:
            st["satisfied"] += 1
        elif c == 1:
            st["violated"] += 1
            if r["src"] != "random":
                st["near_misses"] += 1
                if r["rule"] not in self.samples and r["src"] in ("edit", "miss", "list"):
                    self.samples[r["rule"]] = dict(call=show(r), violated=r["violated"], judge="violated as required", src=r["src"])
        elif c == 2:
            st["silent"] += 1
            if self.silent_sample is None:
                self.silent_sample = dict(call=show(r), violated=r["violated"], judge="documentation silent: either verdict allowed", src=r["src"])
        else:
            what = "rejects-member" if c == 3 else "accepts-non-member"
        if what:
            st["broken"] += 1
            b = self.bad.setdefault((r["rule"], what), [0, []])
            b[0] += 1
            if len(b[1]) < 3:
                b[1].append((r, c))
        elif c == 0 or (c == 1 and r["src"] != "random"):
            # distinct non-trivial case: hashed to keep a 10^6-record run small
            self.distinct.add(hash((r["rule"], tuple(r["arg"]), r["gotype"], tuple(r["input"]), tuple(tuple(e) for e in r["elems"]))))

    def add_file(self, path, codes):
        with open(path) as f:
            i = 0
            for line in f:
                line = line.strip()
                if not line:
                    continue
                self.add(json.loads(line), codes[i])
                i += 1
        if i != len(codes):
            raise MachineryError("%s has %d records but %d codes" % (path, i, len(codes)))

    def report(self, ctx):
        """at most three records per (rule, direction) class become candidates; one of every class first"""
        first = [(k, v[1][0]) for k, v in sorted(self.bad.items())]
        rest = [(k, x) for k, v in sorted(self.bad.items()) for x in v[1][1:]]
        for (rule, what), (r, c) in first + rest:
            sig = dict(rule=rule, what=what, kind=r["kind"])
            if what == "panic":
                desc = "%s panicked: %s" % (show(r), r["panic"][:200])
            elif c == 3:
                desc = "%s reports a violation (%s) although the value is in the documented language of %s" % (
                    show(r), (r.get("err") or "").replace("\n", " ")[:160], rule)
            else:
                desc = "%s is accepted although the value is outside the documented language of %s" % (show(r), rule)
            desc += " [%d records of class %s/%s in this run]" % (self.bad[(rule, what)][0], rule, what)
            ctx.candidate(sig, desc, dict(kind="record", vec=vec_of(r), observed=dict(violated=r["violated"], err=r.get("err", "")[:300])))
        return sum(v[0] for v in self.bad.values()), ["%s:%s" % k for k in sorted(self.bad)]


def run_vectors(ctx, vh, vecs, name):
    """vh formats-run over vecs -> record file"""
    ip = ctx.path(name + ".vecs.ndjson")
    op = ctx.path(name + ".recs.ndjson")
    common.write_ndjson(ip, vecs)
    ctx.run_vh(vh, ["formats-run", "-fs", ctx.path("formats-fs-" + name)], stdin_path=ip, stdout_path=op)
    if count_lines(op) != len(vecs):
        raise MachineryError("formats-run returned %d records for %d vectors" % (count_lines(op), len(vecs)))
    return op
