"""C16 - programmatic rules and functions override declared ones, with documented scope.

1. MC_Scope: the selection mechanism of VStruct.validate (cusRM: typed set, else the unscoped set for the outermost struct;
   entry overrides the tag) and the local -> global function lookup refine the contract (Scope!Alts) on the complete small
   window, and the contract itself has the property's statements (replace entirely / keep tag / no leak to other types or
   nested structs / an unknown name does not silence the field's other rules); reachability companions.
2. Gen_Scope: TLC prints every scenario of the tier's windows (object graphs over 2-3 struct types sharing the field names,
   the outer type recurring inside itself, slices / maps / pointers, top-level slice / map inputs; tag rules x typed sets
   (absent, empty, one field, both) x unscoped set x per-call / global / built-in name collisions) with the allowed clause
   sequences; each becomes generated named Go types + a value, is run through the builder API and every convenience entry
   point that can express it, and the abstracted clause sequence must be one of the allowed ones (model -> code).
3. Seeded random scenarios (random graphs of <= 6 instances, any link kinds, rule lists over all names at all three places)
   are run and judged by TLC (Judge_Scope, constant mode: code -> model).
"""
import json
import os
import random
from concurrent.futures import ThreadPoolExecutor

from . import common, fam_scope as fs
from .common import MachineryError
from .c17 import window_cfg

QUICK_WINDOWS = ["quick_a", "quick_b", "quick_c", "quick_res"]
THOROUGH_WINDOWS = QUICK_WINDOWS + ["thorough_a", "thorough_b", "thorough_res"]

ASSUMPTIONS = [
    "every struct type has the int fields A, B (always 1, so zero-skip never applies); its link fields stand after them, between them or in front of them (one case in three each; clauses are brought into the contract's order - node, then field - before they are judged, the order of clauses being C02's subject); link fields carry `required` when populated in every instance, else `exist`",
    "where a rule is written decides its text (tag to=5~9, typed set to=6~9, unscoped set to=7~9, ...), so the source of each clause is observable; per-call and global functions always report (level, rule text)",
    "globals are registered once per harness process before any call: p_glob (new name) and le (shadows the built-in)",
    "NOT DECIDED by the property, left nondeterministic in the spec: an unscoped entry for a field of the outermost struct whose type also has a non-empty typed set (both the typed/tag rule and the unscoped rule are accepted)",
    "NOT GENERATED: an unscoped rule set together with a top-level slice / map input (what 'outermost' means there is not stated)",
    "NOT GENERATED: rule-set entries with the empty string as rule; typed sets for time.Time; nil pointers / nil elements (D4 is another family's defect)",
    "map-typed link fields and top-level maps hold one entry (order among Go map entries is not this property's business)",
    "clause abstraction: path + one of {call:<text>, global:<text>, built-in default wording of to / le with its bound, 'valid \"<name>\" is not exist'}",
]


def sig_of(scn, obs, alts):
    """scenario class of a failing case: which programmatic inputs are present, fewer / more / other clauses"""
    has_typed = any(scn["typed"][T]["present"] for T in fs.S_TYPES)
    what = "fewer_clauses" if all(len(obs) < len(a) for a in alts) else ("more_clauses" if all(len(obs) > len(a) for a in alts) else "other_clauses")
    return dict(typed=has_typed, unscoped=bool(scn["unscoped"]["present"]), fns=bool(scn["callFns"]), what=what)


def run(ctx):
    quick = ctx.quick()
    if ctx.replay:
        return replay(ctx)
    ctx.spec_dir()
    scns, meta = [], None
    with ThreadPoolExecutor(max_workers=4) as pool:
        wins = QUICK_WINDOWS if quick else THOROUGH_WINDOWS
        gens = [(w, pool.submit(ctx.tlc, "Gen_Scope", window_cfg(ctx, "Gen_Scope", w), workers=1, timeout=1500, tag="gen-" + w)) for w in wins]
        f_mc = pool.submit(ctx.tlc, "Scope", "MC_Scope", workers=2 if quick else 4, coverage=not quick, timeout=1500)
        f_r1 = pool.submit(ctx.tlc, "Scope", "MC_Scope_reach", workers=1, expect_ok=False, count=False, timeout=600)
        f_r2 = pool.submit(ctx.tlc, "Scope", "MC_Scope_reach2", workers=1, expect_ok=False, count=False, timeout=600)
        for w, f in gens:
            res = f.result()
            meta = res.vecs["META"][0]
            got = res.vecs.get("SCN", [])
            if len(got) < 500:
                raise MachineryError("Gen_Scope window %s emitted only %d scenarios" % (w, len(got)))
            scns += got
        mc, r1, r2 = f_mc.result(), f_r1.result(), f_r2.result()
    if not quick and mc.coverage_zero:
        raise MachineryError("vacuous: actions never taken in MC_Scope: %s" % mc.coverage_zero[:5])
    if r1.ok or "NeverAmbiguous" not in r1.raw or r2.ok or "NeverUnknown" not in r2.raw:
        raise MachineryError("vacuity: ambiguous outermost fields / unknown-rule clauses are not reachable in MC_Scope")
    seen, uniq = set(), []
    for s in scns:
        k = json.dumps(s["scn"], sort_keys=True)
        if k not in seen:
            seen.add(k)
            uniq.append(s)
    scns = uniq

    rng = random.Random(ctx.seed)
    worlds = [fs.s_random_world(rng, meta) for _ in range(500 if quick else 2500)]
    rnd = [fs.s_random_scn(rng, meta, worlds) for _ in range(4000 if quick else 40000)]

    tg = fs.TypeGen()
    cases, info, tables = [], [], {}
    for s in scns:
        apis = fs.s_apis(s["scn"])
        apis = apis[1:] or apis       # a convenience entry point where one can express the scenario, else the builder again
        for api in ["vstruct", apis[len(cases) % len(apis)]]:
            c, names = fs.s_concretise(s["scn"], meta, tg, len(cases), api)
            cases.append(c)
            info.append(("gen", s, names))
    for s, wi in rnd:
        apis = ["vstruct"] + fs.s_apis(s)
        c, names = fs.s_concretise(s, meta, tg, len(cases), rng.choice(apis), worlds[wi][0])
        tables[c["id"]] = worlds[wi][0]
        cases.append(c)
        info.append(("rnd", s, names))
    ctx.log("%d enumerated scenarios, %d random scenarios, %d cases, %d generated Go types" % (len(scns), len(rnd), len(cases), len(tg.defs)))
    vh = fs.build(ctx, tg, meta["globals"])
    results = fs.run_cases(ctx, vh, cases, meta["globals"], "c16")

    # binding demonstration (dev only): SCOPE_CORRUPT=exp changes one expected clause, =obs one logged field
    corrupt = os.environ.get("SCOPE_CORRUPT")
    if corrupt == "exp":
        tgt = [s for s in scns if len(s["alts"]) == 1 and s["alts"][0]][7]
        tgt["alts"][0][0]["rule"] = "to=9~9"
        ctx.log("SCOPE_CORRUPT: changed one expected rule text of", json.dumps(tgt["scn"]))
    cands = {}

    def cand(sig, desc, rep):
        cands.setdefault(json.dumps(sig, sort_keys=True), []).append((sig, desc, rep))
    nontrivial = set()
    recs = []
    api_counts = {}
    sample_gen = sample_rnd = None
    amb = 0
    for c, r, (src, s, names) in zip(cases, results, info):
        scn = s["scn"] if src == "gen" else s
        api_counts[c["api"]] = api_counts.get(c["api"], 0) + 1
        rep = dict(kind="scn", scn=scn, api=c["api"], meta=meta, case_id=c["id"], table=tables.get(c["id"]))
        if r.get("panic"):
            cand(dict(panic=True, rootkind=scn["rootkind"]), "panic %r on %s" % (r["panic"], json.dumps(scn)), rep)
            continue
        obs, other = fs.s_abstract(fs.split_clauses(r), names, meta)
        obs = fs.s_canonical(obs, meta)
        if src == "gen":
            alts = s["alts"]
            # non-trivial: a programmatic set or a per-call function really changes the outcome w.r.t. the tags alone
            if any(x["rule"] not in [meta["text"][k]["tag"] for k in meta["text"]] and x["lvl"] != "unknown" for a in alts for x in a) or scn["callFns"]:
                nontrivial.add(json.dumps(scn, sort_keys=True))
            if len(alts) > 1:
                amb += 1
            if other or obs not in alts:
                cand(sig_of(scn, obs, alts),
                     "clause sequence is not one the contract allows: scenario %s (api %s); allowed %s; real (abstracted) %s; real error: %r" % (
                         json.dumps(scn), c["api"], json.dumps(alts), json.dumps(obs), r.get("err")), rep)
            elif sample_gen is None and len(set(x["rule"] for x in obs)) >= 3:
                sample_gen = dict(scenario=scn, api=c["api"], allowed=alts, real_error=r.get("err"))
        else:
            recs.append(dict(id=c["id"], scn=scn, obs=obs))
            if sample_rnd is None and len(obs) >= 4:
                sample_rnd = dict(scenario=scn, api=c["api"], observed=obs, real_error=r.get("err"))
    if corrupt == "obs":
        tgt = [x for x in recs if x["obs"]][7]
        tgt["obs"][0]["lvl"] = "global" if tgt["obs"][0]["lvl"] != "global" else "call"
        ctx.log("SCOPE_CORRUPT: changed the logged level of the first clause of record", tgt["id"])
    bad = fs.judge(ctx, "Judge_Scope", recs, "c16")
    byid = {c["id"]: (c, r, i) for c, r, i in zip(cases, results, info)}
    obsid = {x["id"]: x["obs"] for x in recs}
    for cid, b in sorted(bad.items()):
        c, r, (src, s, names) = byid[cid]
        cand(sig_of(s, obsid[cid], b["alts"]),
             "TLC rejects the recorded outcome: scenario %s (api %s); allowed %s; real (abstracted) %s; real error: %r" % (
                 json.dumps(s), c["api"], json.dumps(b["alts"]), json.dumps(obsid[cid]), r.get("err")),
             dict(kind="scn", scn=s, api=c["api"], meta=meta, case_id=cid, table=tables.get(cid)))
    for k in sorted(cands):
        lst = cands[k]
        lst.sort(key=lambda x: len(json.dumps(x[2]["scn"])))
        sig, desc, rep = lst[0]
        ctx.candidate(sig, "[%d cases of class %s] %s" % (len(lst), k, desc), rep)
    cov = dict(
        traces_validated_against_impl=len(recs),
        evaluations=len(cases),
        distinct_nontrivial=len(nontrivial),
        rule="enumerated: every scenario of the tier's windows of Scope!Space (shapes n1, n1p, rec, rec2, n2, mix, sl, sib, topsl, topmap x tag rules per "
             "(type, field) x typed set per type in {absent, empty, A, B, A+B} x unscoped set x per-call functions; name-resolution window: rule lists "
             "over p_x / p_glob / to / le at tag, typed and unscoped places x 9 per-call function sets), each run through the builder and one more "
             "entry point that can express it; non-trivial = distinct scenario in which a programmatic rule set or a per-call function changes the "
             "outcome; random: seeded graphs judged by TLC",
        scenarios_enumerated=len(scns), scenarios_random=len(recs), cases_with_undecided_field=amb,
        random_with_clauses=sum(1 for x in recs if x["obs"]),
        cases_by_api=api_counts, generated_go_types=len(tg.defs),
        exhaustive=True,
        samples=[x for x in (sample_gen, sample_rnd) if x] or [dict(scenario=scns[0])],
        mc_distinct_states=mc.distinct,
        failing_cases=sum(len(v) for v in cands.values()),
    )
    return ctx.finish("model_checking", cov, ASSUMPTIONS)


def replay(ctx):
    """re-run one scenario; TLC (Judge_Scope) decides"""
    r = json.load(open(ctx.replay))["replay"]
    scn, meta = r["scn"], r["meta"]
    tg = fs.TypeGen()
    c, names = fs.s_concretise(scn, meta, tg, r.get("case_id", 0), r["api"], r.get("table"))
    vh = fs.build(ctx, tg, meta["globals"])
    res = fs.run_cases(ctx, vh, [c], meta["globals"], "replay")[0]
    ctx.log("real error: %r" % res.get("err"))
    if res.get("panic"):
        ctx.candidate(dict(panic=True, rootkind=scn["rootkind"]), "panic %r" % res["panic"], r)
    else:
        obs, other = fs.s_abstract(fs.split_clauses(res), names, meta)
        obs = fs.s_canonical(obs, meta)
        bad = fs.judge(ctx, "Judge_Scope", [dict(id=c["id"], scn=scn, obs=obs)], "replay", shards=1)
        if bad or other:
            alts = list(bad.values())[0]["alts"] if bad else []
            ctx.candidate(sig_of(scn, obs, alts or [[]]), "replayed scenario still differs: allowed %s; real (abstracted) %s; real error %r" % (
                json.dumps(alts), json.dumps(obs), res.get("err")), r)
    return ctx.finish("model_checking", dict(evaluations=1, distinct_nontrivial=0, samples=[r], replay=True, traces_validated_against_impl=1))
