"""C11 - concurrent validations do not interfere.

1. MC_Pools: TLC explores every interleaving of 2 concurrent + 1 later call over the pool/buffer/cache steps (B => A):
   exclusive ownership of pooled objects, no foreign rule map / function table / buffer content / cache entry, own result.
2. vh pools-conc (built WITH -race), one process per type-cache capacity {1, 3, default}: runs of 2..32 goroutines, each a
   seeded stream of Struct (tags, typed/unscoped rule sets, per-call functions), Var, Map, Url, split/parse calls drawn from
   the descriptor universe emitted by TLC, over shared named types and goroutine-private reflect.StructOf types (more
   distinct types than any of the caches holds). Per-call functions are tokens owned by one call.
3. Every call/ret/recheck event is judged by TLC against Trace_Pools (ret = Expected(desc), handed-out values frozen).
4. Race reports, panics and deadlock timeouts are violations.
"""
import json
import os
import re

from . import common, fam_pools as fp
from .common import MachineryError
from .c12 import ASSUMPTIONS as A12

ASSUMPTIONS = [a for a in A12 if "recycling is observed" not in a] + [
    "no-data-race is decided, on the real runs, by the Go race detector acting as monitor of the recorded executions; TLC decides the "
    "pool/cache protocol model and every recorded return",
    "global functions are registered once before any goroutine starts (as the property states); the type cache is replaced before the first call",
    "schedules are those the Go scheduler produced in this run (2..32 goroutines, GOMAXPROCS 4)",
]

CAPS = [1, 3, -1]


def race_reports(stderr):
    return re.findall(r"WARNING: DATA RACE.*?={18}", stderr or "", flags=re.S)


def race_summary(rep):
    fns = sorted(set(re.findall(r"protoc-go-valid/valid\.([\w\.\(\)\*]+)\(\)", rep)))
    lines = [l.strip() for l in rep.splitlines() if "/valid/" in l][:4]
    return fns[:6], lines


def run_caps(ctx, vh, menu_path, gor, caps, timeout, tmo_run, volleys=0):
    from concurrent.futures import ThreadPoolExecutor

    def one(cap):
        pre = ctx.path("conc-cap%s" % ("def" if cap < 0 else cap))
        sp = pre + ".sum.json"
        r = fp.run_harness(ctx, vh, ["pools-conc", "-menu", menu_path, "-out", pre, "-sum", sp, "-cap", str(cap), "-gor", gor,
                                     "-private", "10", "-timeout", str(tmo_run), "-volleys", str(volleys)], timeout=timeout, race_env=True)
        return cap, pre, sp, r
    env_procs = os.environ.get("GOMAXPROCS")
    os.environ["GOMAXPROCS"] = "4"
    try:
        with ThreadPoolExecutor(max_workers=3) as ex:
            return list(ex.map(one, caps))
    finally:
        if env_procs is None:
            os.environ.pop("GOMAXPROCS", None)
        else:
            os.environ["GOMAXPROCS"] = env_procs


def merge(files):
    if len(files) == 1:
        return files[0]
    out = files[0] + ".merged"
    with open(out, "w") as fo:
        for f in files:
            fo.write(open(f).read())
    return out


def run(ctx):
    quick = ctx.quick()
    menu, menu_path = fp.gen_menu(ctx)
    vh = fp.build(ctx, menu, race=True)
    if ctx.replay:
        return replay(ctx, vh, menu, menu_path)

    mc, negs = fp.model_check(ctx, quick, descs=[2, 3, 8])

    gor = "2x700,8x260,32x80" if quick else "2x8000,3x6000,4x5000,8x3000,16x1600,32x900"
    volleys = 400 if quick else 3000
    runs = run_caps(ctx, vh, menu_path, gor, CAPS, timeout=600 if quick else 2400, tmo_run=120 if quick else 600, volleys=volleys)
    traces, calls_sum, overlap_runs, total_runs, ntypes = [], 0, 0, 0, 0
    race_seen = 0
    for cap, pre, sp, r in runs:
        replay_obj = dict(kind="conc", cap=cap, gor=gor, seed=ctx.seed, volleys=volleys)
        if r is None:
            ctx.candidate(dict(src="conc", what="deadlock", cap=cap), "concurrent run (cache capacity %s) did not terminate" % cap, replay_obj)
            continue
        races = race_reports(r.stderr)
        if races:
            race_seen += len(races)
            fns, lines = race_summary(races[0])
            ctx.candidate(dict(src="race", fns=fns), "data race reported by the race detector (cache capacity %s, %d reports): %s %s" % (
                cap, len(races), fns, lines), dict(replay_obj, report=races[0][:3000]))
        if "POOLS-DEADLOCK" in r.stderr or r.returncode == 5:
            ctx.candidate(dict(src="conc", what="deadlock", cap=cap), "concurrent run deadlocked: " + r.stderr[:600], replay_obj)
        elif "fatal error" in r.stderr or (r.returncode not in (0, 66)):
            if "fatal error" in r.stderr or "panic:" in r.stderr:
                m = re.search(r"(fatal error: [^\n]*|panic: [^\n]*)", r.stderr)
                ctx.candidate(dict(src="conc", what="crash", msg=(m.group(1) if m else "")[:80]),
                              "concurrent run crashed (cache capacity %s): %s" % (cap, r.stderr[-1200:]), replay_obj)
            else:
                raise MachineryError("pools-conc failed rc=%s: %s" % (r.returncode, r.stderr[-1500:]))
        if os.path.exists(sp):
            s = json.load(open(sp))
            calls_sum += s["calls"]
            overlap_runs += s["runs_with_overlap"]
            ntypes = s["types"]
        # one trace file per run; small ones of the same process are concatenated (each starts with a reset event)
        group, gsize = [], 0
        for i in range(len(gor.split(","))):
            f = "%s.%d.ndjson" % (pre, i)
            if os.path.exists(f) and os.path.getsize(f) > 0:
                total_runs += 1
                group.append(f)
                gsize += os.path.getsize(f)
                if gsize > 12_000_000:
                    traces.append((cap, merge(group)))
                    group, gsize = [], 0
        if group:
            traces.append((cap, merge(group)))
    results = fp.validate_many(ctx, menu, [f for _, f in traces], "Trace_Pools-c11-", workers=4)
    calls = rechecks = nonempty = witness = 0
    sample = None
    combos = set()
    cur_g = None
    for (cap, f), (events, n_calls, n_re, rejected) in zip(traces, results):
        calls += n_calls
        rechecks += n_re
        a, b, ids = fp.nontrivial(menu, events)
        nonempty += a
        witness += b
        for e in events:
            if e["e"] == "reset":
                cur_g = e.get("g")
            elif e["e"] == "ret" and e["d"] in ids:
                combos.add((e["d"], cap, cur_g))
        replay_obj = dict(kind="conc", cap=cap, gor=gor, seed=ctx.seed, volleys=volleys)
        for e in events:
            if e["e"] == "panic":
                ctx.candidate(dict(src="conc", what="panic", car=menu["descs"][e["d"] - 1]["d"]["car"]),
                              "call %s (%s) panicked in a concurrent run (cache capacity %s): %s" % (e["c"], e["key"], cap, e["note"][:300]), replay_obj)
        if sample is None:
            sample = [e for e in events if e["e"] in ("call", "ret")][:6]
        for bad, of_call, line in rejected:
            sig, desc = fp.classify(menu, bad, of_call, events)
            sig["src"] = "conc"
            ctx.candidate(sig, "cache capacity %s, %s goroutines: %s" % (cap, events[0].get("g"), desc), dict(replay_obj, failing=bad))
    demo_line = fp.corrupt_demo(ctx, menu, traces[0][1], "Trace_Pools-c11") if (traces and not ctx.violations) else None
    if total_runs and overlap_runs < total_runs:
        ctx.note("runs without two calls in flight at once: %d of %d" % (total_runs - overlap_runs, total_runs))
    cov = dict(
        traces_validated_against_impl=total_runs,
        runs=total_runs, runs_with_overlapping_calls=overlap_runs, calls_validated=calls, rechecks_validated=rechecks,
        evaluations=calls + rechecks,
        distinct_nontrivial=len(combos),
        calls_with_witness_expectation=witness,
        calls_with_nonempty_expectation=nonempty,
        rule="runs: goroutines x calls = %s per cache capacity in {1, 3, default 512}, %d distinct struct types per process; non-trivial = "
             "distinct (descriptor, cache capacity, goroutine count) whose expectation contains a per-call-function token or a not-exist "
             "clause (foreign/missing token = interference)" % (gor, ntypes),
        race_reports=race_seen,
        mc_distinct_states=mc.distinct, mc_negative_controls=negs,
        corrupted_line_rejected=demo_line,
        descriptors=len(menu["descs"]),
        exhaustive=False,
        samples=[sample],
    )
    return ctx.finish("model_checking", cov, ASSUMPTIONS)


def replay(ctx, vh, menu, menu_path):
    r = json.load(open(ctx.replay))["replay"]
    seed_env = r.get("seed", ctx.seed)
    ctx.seed = seed_env
    runs = run_caps(ctx, vh, menu_path, r["gor"], [r["cap"]], timeout=1200, tmo_run=300, volleys=r.get("volleys", 0))
    n = 0
    for cap, pre, sp, res in runs:
        if res is None or "POOLS-DEADLOCK" in (res.stderr or ""):
            ctx.candidate(dict(src="conc", what="deadlock", cap=cap), "replayed run did not terminate", r)
            continue
        races = race_reports(res.stderr)
        if races:
            fns, lines = race_summary(races[0])
            ctx.candidate(dict(src="race", fns=fns), "replay: data race %s %s" % (fns, lines), r)
        if "fatal error" in res.stderr or "panic:" in res.stderr:
            ctx.candidate(dict(src="conc", what="crash"), "replay: crash " + res.stderr[-600:], r)
        files = ["%s.%d.ndjson" % (pre, i) for i in range(len(r["gor"].split(",")))]
        files = [f for f in files if os.path.exists(f) and os.path.getsize(f) > 0]
        for events, n_calls, n_re, rejected in fp.validate_many(ctx, menu, files, "Trace_Pools-replay-", workers=4):
            n += n_calls + n_re
            for e in events:
                if e["e"] == "panic":
                    ctx.candidate(dict(src="conc", what="panic"), "replay: panic " + e["note"][:300], r)
            for bad, of_call, line in rejected:
                sig, desc = fp.classify(menu, bad, of_call, events)
                sig["src"] = "conc"
                ctx.candidate(sig, "replay: " + desc, r)
    return ctx.finish("model_checking", dict(evaluations=n, distinct_nontrivial=0, samples=[r], replay=True, traces_validated_against_impl=1))
