"""C02 - every violated rule is reported exactly once, in order; nil iff none.

1. MC: TLC checks on every step of the mechanism (field loop x rule loop, append-only buffer) that the buffer is a prefix of a
   clause sequence the contract allows and that the returned value is one (nil iff empty) - complete flat windows, both alphabets.
2. model -> code: TLC prints every scenario of those windows with Expected; each is run through the real Struct (rules as RM on
   fixed named types; rules as tags on reflect.StructOf types), Var, Map and Url walkers; clause lists compared for equality
   (Go-map carriers: membership in the set of allowed orders).
3. code -> model: a seeded driver builds nested scenarios (depth <= 3, 0..5 rules per field, real size rules incl. inverted
   intervals, custom messages) and records probe calls (with the LIVE error buffer) and the result; TLC validates every trace.
"""
from . import common
from . import fam_walker as fw
from .common import MachineryError
from .fam_walker import q

ASSUMPTIONS = [
    "clause classes, not wording: a clause is abstracted to (path, echoed input, class) with class in required / size / notexist / tok:<rule text> / msg:<custom message>; the default wording itself is C15's",
    "custom messages are >= 2 bytes and contain no separator '; ', label word, '=', ',' or quote (one-byte messages: C14/D11)",
    "Var/Map/Url print no usable path for an unknown-rule clause: its path is not compared there",
    "Var is given at least one non-empty rule item and Map/Url an RM entry per key (the 'have no set rule(s)' errors are usage errors, not rule violations)",
    "Map carriers use map[string]int / map[string]string with every key present (interface{} values and missing keys: C03/D3, C18/D14); entries may be visited in any order",
    "either/botheq are not generated (C17); exist on a scalar is not generated; rules other than required/exist on struct/collection fields are limited to a satisfied probe",
    "scalar kinds are int and string, measures 0..6 (other kinds and exact boundaries: C01); inverted intervals (to=5~1) are inside the domain",
    "reflect.StructOf roots are anonymous, so they are passed as the single entry of a map[string]T (label map[k1]); the direct call path is covered by the fixed named types",
    "nil elements / nil inner pointers are not generated here (C04/C13)",
]


def run(ctx):
    vh = ctx.build_vh()
    if ctx.replay:
        import json as _json
        rp = _json.load(open(ctx.replay))["replay"]
        if rp.get("kind") == "groupslast":      # the fixed family is run again; TLC judges; the shape of the replay file is reported
            gp = ctx.path("groupslast.ndjson")
            ctx.run_vh(vh, ["walker-groupslast"], stdout_path=gp)
            grecs = common.read_ndjson(gp)
            jr = ctx.tlc("Judge_GroupsLast", "Judge_GroupsLast", workers=1, env={"FILE": gp}, tag="groupslast", count=False)
            gbad = set(jr.vecs["JUDGED"][0]["bad"])
            for r in grecs:
                if r["id"] in gbad and r["shape"] == rp["shape"] and r["elems"] == rp["elems"]:
                    ctx.candidate(dict(src="groupslast", shape=r["shape"]), "replayed: clause classes %s, wanted %d field / %d group clauses, group clauses last; error %r" % (
                        r["kinds"], r["wantf"], r["wantg"], r["err"][:300]), rp)
            return ctx.finish("model_checking", dict(evaluations=1, distinct_nontrivial=0, samples=[rp], replay=True, traces_validated_against_impl=1))
        return fw.replay_saved(ctx, vh)
    quick = ctx.quick()
    ctx.spec_dir()      # the scratch copy of spec/ is made before any TLC run is started from a thread
    tier = q("quick" if quick else "thorough")

    flat_unreach = ("Exist", "GroupMember", "NextElem", "NextEntry", "NilRoot")   # no sub-objects, groups or nil roots in flat windows (C04, C17)
    from concurrent.futures import ThreadPoolExecutor
    # 1. design check (mechanism refines contract on the complete windows) side by side with 2. the scenario emitters
    with ThreadPoolExecutor(max_workers=2) as ex:
        futs = [ex.submit(fw.mc, ctx, "mc_flat_" + a, dict(Mode=q("flat"), Alpha=q(a), Tier=tier), 3 if quick else 4, not quick, 2400, flat_unreach)
                for a in ("probe", "builtin")]
        vecs, markers = fw.gen_many(ctx, [("gen_flat_probe", dict(Mode=q("flat"), Alpha=q("probe"), Tier=tier)),
                                          ("gen_flat_builtin", dict(Mode=q("flat"), Alpha=q("builtin"), Tier=tier))], par=2)
        mcs = [f.result() for f in futs]
    mfile = fw.markers_file(ctx, markers)
    results = fw.replay(ctx, vh, vecs, mfile)
    if len(results) < len(vecs):
        raise MachineryError("replay incomplete: %d results for %d scenarios" % (len(results), len(vecs)))
    n, nontriv, reasons = fw.compare(ctx, vecs, results, "replay", markers)
    per = {}
    for r in results:
        per[r["carrier"]] = per.get(r["carrier"], 0) + 1
    multi = sum(1 for v in vecs if any(len(e["seqs"][0]) >= 2 for e in v["exp"].values()))
    ctx.log("replayed %d scenarios, %d real calls %s, %d with violations expected, mismatches %s" % (len(vecs), n, per, nontriv, reasons))

    # 3. code -> model
    files = fw.record(ctx, vh, mfile, "c02trace", shards=4, n=1500 if quick else 8000)
    traces, events, probes, rej, psample = fw.validate(ctx, files, workers=4)
    fw.trace_candidates(ctx, rej, "trace", markers)
    ctx.log("validated %d traces (%d events, %d probe calls), %d rejected" % (traces, events, probes, len(rej)))
    if ctx.cov["traces_recorded"] < 100 or probes < 100:
        raise MachineryError("trace recording too small: %d traces, %d probes" % (traces, probes))

    # 4. "cross-field group clauses last": a fixed family of inputs in which field and group violations occur together
    #    (one object, slices / arrays / maps of objects as root and as a field); TLC judges the recorded clause-class
    #    sequences (Judge_GroupsLast: no field clause behind a group clause, none lost)
    gp = ctx.path("groupslast.ndjson")
    ctx.run_vh(vh, ["walker-groupslast"], stdout_path=gp)
    grecs = common.read_ndjson(gp)
    if len(grecs) < 500:
        raise MachineryError("walker-groupslast produced only %d records" % len(grecs))
    jr = ctx.tlc("Judge_GroupsLast", "Judge_GroupsLast", workers=1, env={"FILE": gp}, tag="groupslast", count=False)
    judged = jr.vecs.get("JUDGED")
    if not judged or judged[0]["n"] != len(grecs):
        raise MachineryError("Judge_GroupsLast incomplete")
    gbad = set(judged[0]["bad"])
    shown = set()
    for r in grecs:
        if r["id"] in gbad and r["shape"] not in shown:
            shown.add(r["shape"])
            ctx.candidate(dict(src="groupslast", shape=r["shape"]),
                          "group clauses are not last / clauses are missing: Struct on shape %s with elements %s (bit 0 either group violated, bit 1 field rule violated, bit 2 botheq group violated) "
                          "returned clause classes %s, the input calls for %d field and %d group clauses, group clauses last; error: %r [%d such records]" % (
                              r["shape"], r["elems"], r["kinds"], r["wantf"], r["wantg"], r["err"][:300], len(gbad)),
                          dict(kind="groupslast", shape=r["shape"], elems=r["elems"]))

    sample_vec = next((v for v in vecs if any(len(e["seqs"][0]) >= 3 for e in v["exp"].values())), vecs[0])
    sample_res = [r for r in results if r["id"] == sample_vec["id"]][:2]
    cov = dict(
        traces_validated_against_impl=traces, traces_recorded=ctx.cov["traces_recorded"], trace_events=events, probe_calls=probes,
        scenarios=len(vecs), real_calls=n, calls_per_carrier=per, scenarios_with_2plus_clauses=multi,
        evaluations=n + events, distinct_nontrivial=nontriv,
        rule="replay: every flat scenario of the windows (probe alphabet: required, required|m, p_ok, p_bad, p_bad|m, unknown, empty item; "
             "built-in alphabet: required, unknown, empty item, ge ok/bad, le, le|m, to, inverted to, oto low/high side, inverted oto|m, eq, noeq, gt, lt) x zero/non-zero values x "
             "every carrier it fits; non-trivial = distinct (scenario, carrier) pairs for which the contract expects at least one clause; traces: seeded random nested scenarios",
        exhaustive=True,
        samples=[dict(scenario=fw.brief(sample_vec["scn"]), expected=sample_vec["exp"], real=sample_res), psample],
        mc_distinct_states=[m.distinct for m in mcs],
        groupslast_records=len(grecs), groupslast_with_both_kinds=sum(1 for r in grecs if r["wantg"] and r["wantf"]),
    )
    fw.summarise(ctx)
    return ctx.finish("model_checking", cov, ASSUMPTIONS)
