"""C17 - either / botheq groups are judged per object, all-empty and all-equal.

1. MC_Groups: the table mechanism (keyed by object + rule text) refines the per-object contract on the complete small
   window; MC_Groups_pinned (keyed by rule text only, VMap wrapping the value) must FAIL - that counterexample is D13;
   MC_Groups_reach: violated groups are reachable.
2. Gen_Groups: TLC prints every scenario of the tier's windows with the contract's expected clause set; each is
   concretised (generated named Go types with the rules in tags, the same types with the rules in a typed / unscoped rule
   set, map / []map / URL inputs), run through the real entry points and compared (model -> code).
3. Seeded random scenarios outside the windows (up to 4 fields, 3 instances, all kinds and layouts) are run and the
   recorded clause lists are judged by TLC against the same contract (Judge_Groups, constant mode: code -> model).
"""
import json
import os
import random

from . import common, fam_scope as fs
from .common import MachineryError

QUICK_WINDOWS = ["quick_struct", "quick_flat"]
THOROUGH_WINDOWS = ["quick_struct", "quick_flat", "thorough_struct1", "thorough_struct2", "thorough_struct3", "thorough_flat"]

ASSUMPTIONS = [
    "abstract values 0/1/2 are concretised per kind (int 0/1/2, string ''/'x'/'y', bool false/true, float 0 / 1.5 / 1.5000000000002 (botheq is exact equality), uint 0/1/2); 0 = empty",
    "botheq groups are only generated with members of one kind (the property's domain); either groups mix kinds",
    "every rule-bearing map key / URL parameter is present in the input (what an absent member means is not stated)",
    "interface-valued maps are generated only when no either group is all-empty (emptiness of interface values is C03's business, defect D3)",
    "group rules carry no custom message (the documentation says either/botheq take none) and a field carries a group rule at most once",
    "nested instances contain one extra non-empty rule-less field: an all-zero struct under `exist` is not entered at all (C04)",
    "no nil elements / nil instance pointers are generated (D4 is another family's defect)",
    "group clauses are compared as a bag; member lists in declaration order for struct and URL inputs, as sets for map inputs (Go map order)",
    "map / URL inputs: a single-member rule-writing clause carries no member name, and members are named by key; the element index of a []map is compared only when the clause text carries it",
    "clause wording is abstracted by the fixed phrases \"they shouldn't all be empty\" / \"they should be equal\" / 'valid \"either|botheq\" is not ok'",
]


def window_cfg(ctx, module, window):
    d = ctx.spec_dir()
    base = open("%s/%s.cfg" % (d, module)).read()
    import re
    txt = re.sub(r'Window = "[^"]*"', 'Window = "%s"' % window, base)
    name = "%s-%s" % (module, window)
    open("%s/%s.cfg" % (d, name), "w").write(txt)
    return name


def sig_of(scn, exp, obs):
    """scenario class of a failing case: input kind, one or several object instances, fewer / more / other clauses"""
    what = "fewer_clauses" if len(obs) < len(exp) else ("more_clauses" if len(obs) > len(exp) else "other_clauses")
    return dict(carrier=scn["carrier"], multi_instance=len(scn["inst"]) > 1, what=what)


def design_checks(ctx, quick, pool):
    """submitted to the pool: returns futures (mc, pinned, reach)"""
    f_mc = pool.submit(ctx.tlc, "Groups", "MC_Groups", workers=2 if quick else 4, coverage=not quick, timeout=1500)
    f_pin = pool.submit(ctx.tlc, "Groups", "MC_Groups_pinned", workers=1, expect_ok=False, count=False, timeout=600)
    f_reach = pool.submit(ctx.tlc, "Groups", "MC_Groups_reach", workers=1, expect_ok=False, count=False, timeout=600)
    return f_mc, f_pin, f_reach


def design_verdicts(quick, f_mc, f_pin, f_reach):
    mc, pinned, reach = f_mc.result(), f_pin.result(), f_reach.result()
    if not quick and mc.coverage_zero:
        raise MachineryError("vacuous: actions never taken in MC_Groups: %s" % mc.coverage_zero[:5])
    if pinned.ok or not pinned.invariant_violated or "Refines" not in pinned.raw:
        raise MachineryError("sanity: the rule-text-keyed table was expected to violate Refines (D13 counterexample) but TLC said:\n" + pinned.raw[-1500:])
    if reach.ok or "NeverViolatedGroup" not in reach.raw:
        raise MachineryError("vacuity: no violated multi-member group is reachable in MC_Groups")
    return mc


class Acc:
    """what the batches accumulate"""

    def __init__(self):
        self.cands = {}          # signature -> [(sig, desc, replay)]
        self.nontrivial = set()
        self.seen = set()
        self.cases = 0
        self.enumerated = 0
        self.judged = 0
        self.judged_with_clauses = 0
        self.counts = dict(struct=0, map=0, url=0)
        self.types = 0
        self.sample_gen = None
        self.sample_rnd = None
        self.failing = 0

    def cand(self, sig, desc, rep):
        lst = self.cands.setdefault(json.dumps(sig, sort_keys=True), [])
        if len(lst) < 2000:     # enough to pick the smallest scenario of the class from
            lst.append((sig, desc, rep))
        self.failing += 1


def process(ctx, acc, tag, scns, rnd, ruletext, rng, corrupt=None):
    """concretise, build, run, compare (enumerated) / let TLC judge (random) one batch"""
    tg = fs.TypeGen()
    cases, info = [], []
    for s in scns:
        k = json.dumps(s["scn"], sort_keys=True)
        if k in acc.seen:
            continue
        acc.seen.add(k)
        acc.enumerated += 1
        for v in fs.g_variants(s["scn"]):
            c, names = fs.g_concretise(s["scn"], ruletext, tg, v, len(cases))
            cases.append(c)
            info.append(("gen", s, names, v))
    for s in rnd:
        v = rng.choice(fs.g_variants(s))
        c, names = fs.g_concretise(s, ruletext, tg, v, len(cases))
        cases.append(c)
        info.append(("rnd", s, names, v))
    if not cases:
        return
    ctx.log("batch %s: %d enumerated + %d random scenarios, %d cases, %d generated Go types" % (tag, len(scns), len(rnd), len(cases), len(tg.defs)))
    vh = fs.build(ctx, tg, [])
    results = fs.run_cases(ctx, vh, cases, [], "c17-" + tag)
    acc.cases += len(cases)
    acc.types += len(tg.defs)
    if corrupt == "exp" and scns:
        tgt = [s for s in scns if s["exp"]][7]
        tgt["exp"] = tgt["exp"][1:]
        ctx.log("SCOPE_CORRUPT: dropped one expected clause of", json.dumps(tgt["scn"]))
    recs = []
    for c, r, (src, s, names, v) in zip(cases, results, info):
        scn = s["scn"] if src == "gen" else s
        acc.counts[scn["carrier"]] += 1
        rep = dict(kind="scn", scn=scn, variant=v, ruletext=ruletext, case_id=c["id"])
        if r.get("panic"):
            acc.cand(dict(carrier=scn["carrier"], panic=True), "panic %r on %s" % (r["panic"], json.dumps(scn)), rep)
            continue
        clauses = fs.split_clauses(r)
        if c.get("deco_required") is not None:
            clauses, nreq = fs.g_strip_required(clauses)
            if nreq != c["deco_required"]:
                acc.cand(dict(carrier=scn["carrier"], what="required_next_to_group", expected=c["deco_required"], observed=nreq),
                         "members that also carry required: %d required clauses expected (one per empty member), %d found: scenario %s (rules via %s, api %s); real error: %r" % (
                             c["deco_required"], nreq, json.dumps(scn), v, c["api"], r.get("err")), rep)
                continue
        obs, hasinst, other = fs.g_abstract(clauses, names, scn["carrier"])
        if src == "gen":
            exp = s["exp"]
            if exp:
                acc.nontrivial.add(json.dumps(scn, sort_keys=True))
            if other or not fs.g_equal(exp, obs, scn["carrier"], hasinst):
                acc.cand(sig_of(scn, exp, obs),
                         "group clauses differ from the contract: scenario %s (rules via %s, api %s); contract expects %s; real error: %r" % (
                             json.dumps(scn), v, c["api"], json.dumps(exp), r.get("err")), rep)
            elif acc.sample_gen is None and len(exp) >= 2:
                acc.sample_gen = dict(scenario=scn, variant=v, expected=exp, real_error=r.get("err"))
        else:
            recs.append(dict(id=c["id"], scn=scn, obs=obs, hasinst=hasinst))
            if acc.sample_rnd is None and len(obs) >= 2:
                acc.sample_rnd = dict(scenario=scn, variant=v, observed=obs, real_error=r.get("err"))
    if corrupt == "obs" and recs:
        tgt = [x for x in recs if x["obs"]][7]
        tgt["obs"] = tgt["obs"][1:]
        ctx.log("SCOPE_CORRUPT: dropped one logged clause of record", tgt["id"])
    bad = fs.judge(ctx, "Judge_Groups", recs, "c17-" + tag)
    acc.judged += len(recs)
    acc.judged_with_clauses += sum(1 for x in recs if x["obs"])
    if bad:
        byid = {c["id"]: (c, r, i) for c, r, i in zip(cases, results, info)}
        obsid = {x["id"]: x["obs"] for x in recs}
        for cid, b in sorted(bad.items()):
            c, r, (src, s, names, v) = byid[cid]
            acc.cand(sig_of(s, b["exp"], obsid[cid]),
                     "TLC rejects the recorded outcome: scenario %s (rules via %s, api %s); contract expects %s; real error: %r" % (
                         json.dumps(s), v, c["api"], json.dumps(b["exp"]), r.get("err")),
                     dict(kind="scn", scn=s, variant=v, ruletext=ruletext, case_id=cid))


def run(ctx):
    from concurrent.futures import ThreadPoolExecutor
    quick = ctx.quick()
    if ctx.replay:
        return replay(ctx)
    ctx.spec_dir()
    corrupt = os.environ.get("SCOPE_CORRUPT")     # binding demonstration (dev only): exp | obs
    rng = random.Random(ctx.seed)
    acc = Acc()
    first = None
    # design checks and scenario generation, at most 4 TLC processes at a time; batches are processed as they arrive
    with ThreadPoolExecutor(max_workers=4) as pool:
        wins = QUICK_WINDOWS if quick else THOROUGH_WINDOWS
        gens = [(w, pool.submit(ctx.tlc, "Gen_Groups", window_cfg(ctx, "Gen_Groups", w), workers=1, timeout=1500, tag="gen-" + w)) for w in wins]
        futs = design_checks(ctx, quick, pool)
        for n, (w, f) in enumerate(gens):
            res = f.result()
            ruletext = res.vecs["META"][0]["ruletext"]
            got = res.vecs.get("SCN", [])
            if len(got) < 500:
                raise MachineryError("Gen_Groups window %s emitted only %d scenarios" % (w, len(got)))
            first = first or got[0]
            rnd = []
            if n == 0:      # code -> model: random scenarios over a pool of random type worlds, judged by TLC
                worlds = [fs.g_random_world(rng) for _ in range(600 if quick else 2500)]
                rnd = [fs.g_random_scn(rng, worlds) for _ in range(3000 if quick else 40000)]
            process(ctx, acc, w, got, rnd, ruletext, rng, corrupt if n == 0 else None)
            del got, res
        mc = design_verdicts(quick, *futs)
    for k in sorted(acc.cands):
        lst = acc.cands[k]
        lst.sort(key=lambda x: len(json.dumps(x[2]["scn"])))      # smallest scenario of the class first
        sig, desc, rep = lst[0]
        ctx.candidate(sig, "[class %s, %d failing cases kept] %s" % (k, len(lst), desc), rep)
    cov = dict(
        traces_validated_against_impl=acc.judged,
        evaluations=acc.cases,
        distinct_nontrivial=len(acc.nontrivial),
        rule="enumerated: every scenario of the tier's windows of Groups!Space (3 fields x group-rule assignments x kind vectors x value vectors "
             "x layouts single/ptr/nested/slice/[]*T/map/pair/nested slice/nested map, map and []map inputs, URL inputs), each run with the rules in "
             "tags, in a typed rule set and (outermost only) in an unscoped rule set; non-trivial = distinct scenario whose contract demands at "
             "least one group clause; random: seeded scenarios up to 4 fields x 3 instances judged by TLC",
        scenarios_enumerated=acc.enumerated, scenarios_random=acc.judged, random_with_clauses=acc.judged_with_clauses,
        cases_by_carrier=acc.counts, generated_go_types=acc.types,
        exhaustive=True,
        samples=[x for x in (acc.sample_gen, acc.sample_rnd) if x] or [dict(scenario=first)],
        mc_distinct_states=mc.distinct,
        failing_cases=acc.failing,
    )
    return ctx.finish("model_checking", cov, ASSUMPTIONS)


def replay(ctx):
    """re-run one scenario; TLC (Judge_Groups) decides"""
    r = json.load(open(ctx.replay))["replay"]
    scn, v, ruletext = r["scn"], r["variant"], r["ruletext"]
    tg = fs.TypeGen()
    c, names = fs.g_concretise(scn, ruletext, tg, v, r.get("case_id", 0))
    vh = fs.build(ctx, tg, [])
    res = fs.run_cases(ctx, vh, [c], [], "replay")[0]
    if res.get("panic"):
        ctx.candidate(dict(carrier=scn["carrier"], panic=True), "panic %r" % res["panic"], r)
    else:
        clauses = fs.split_clauses(res)
        if c.get("deco_required") is not None:
            clauses, nreq = fs.g_strip_required(clauses)
            if nreq != c["deco_required"]:
                ctx.candidate(dict(carrier=scn["carrier"], what="required_next_to_group", expected=c["deco_required"], observed=nreq),
                              "replayed: %d required clauses expected, %d found: %r" % (c["deco_required"], nreq, res.get("err")), r)
        obs, hasinst, other = fs.g_abstract(clauses, names, scn["carrier"])
        bad = fs.judge(ctx, "Judge_Groups", [dict(id=c["id"], scn=scn, obs=obs, hasinst=hasinst)], "replay", shards=1)
        ctx.log("real error: %r" % res.get("err"))
        if bad or other:
            exp = list(bad.values())[0]["exp"] if bad else []
            ctx.candidate(sig_of(scn, exp, obs), "replayed scenario still differs: contract expects %s; real error %r" % (json.dumps(exp), res.get("err")), r)
    return ctx.finish("model_checking", dict(evaluations=1, distinct_nontrivial=0, samples=[r], replay=True, traces_validated_against_impl=1))
