"""C10 - the LRU cache is safe and linearizable under concurrent use.

Verdict sources (all from real executions, DESIGN.md section 6 C10):
 1. lock protocol: the lock mode each method holds at its access point is *measured* through the verif hook;
    LRUConc.tla is model-checked with that table (NoRace, LockSane, termination). A predicted race is turned into
    a targeted two-goroutine run under the race detector; only a reproduced race is a VIOLATION.
 2. linearizability: thousands of small concurrent histories of the real cache (inv/ret/callback events stamped by
    one atomic counter) are accepted or rejected by TLC against Trace_LRUConc.tla, which searches the unlogged
    linearization points; long 16-goroutine runs are ordered by the under-lock stamps of the hook and validated
    sequentially against Trace_LRU.tla, including the quiescent state (Len, capacity bound, Dump order).
 3. the race detector, panics and deadlock timeouts during all of it.
"""
import json
import os
import re
import subprocess

from . import common
from .common import MachineryError
from .c09 import validate_traces, slice_of

EXPECT_HOOKED = ["Store", "Load", "Delete", "Len", "Dump"]


def run_race(ctx, vh, args, timeout=600):
    """run a -race binary; returns (stdout, stderr, list of race reports)"""
    env = ctx.env({"GORACE": "halt_on_error=0 history_size=3"})
    try:
        r = subprocess.run([vh] + args, stdout=subprocess.PIPE, stderr=subprocess.PIPE, text=True, env=env, cwd=ctx.work, timeout=timeout)
    except subprocess.TimeoutExpired:
        return None, "timeout", ["timeout"]
    races = re.findall(r"WARNING: DATA RACE.*?={18}", r.stderr, flags=re.S)
    return r, r.stderr, races


def race_summary(rep):
    fns = re.findall(r"valid\.\(\*LRUCache\)\.(\w+)", rep)
    lines = [l.strip() for l in rep.splitlines() if "cache.go" in l][:4]
    return sorted(set(fns)), lines


def crashed(err):
    """the Go runtime killed the process (unrecoverable: concurrent map writes, unlock of unlocked mutex, ...) or an
    unrecovered panic escaped - with the cache's own frames on the stack"""
    return bool(err) and ("fatal error:" in err or "panic:" in err) and "LRUCache" in err


def crash_excerpt(err):
    ls = err.splitlines()
    i = next((k for k, l in enumerate(ls) if l.startswith("fatal error:") or l.startswith("panic:")), 0)
    fr = [l.strip() for l in ls[i:i + 60] if "LRUCache" in l][:3]
    return (ls[i] if ls else "") + " | " + " | ".join(fr)


def finish_after_crash(ctx, table):
    cov = dict(states=ctx.states, transitions=ctx.transitions, traces_validated_against_impl=0, evaluations=1, distinct_nontrivial=0,
               lock_table=table, samples=[dict(note="run ended early: the harness process crashed inside the cache")], exhaustive=False)
    return ctx.finish("model_checking", cov, ["run ended early after a crash of the harness process inside the cache"])


def run(ctx):
    quick = ctx.quick()
    vh = ctx.build_vh()
    vhr = ctx.build_vh(race=True)

    # ---- 1. lock protocol -------------------------------------------------------------------------
    r = ctx.run_vh(vh, ["lru-lockprobe"])
    probe = json.loads(r.stdout.strip().splitlines()[-1])
    table = probe["table"]
    missing = [op for op in EXPECT_HOOKED if op not in table]
    if missing:
        raise MachineryError("verif hook not reached in methods %s (hook lines removed?)" % missing)
    if probe["after"] != "N":
        ctx.candidate(dict(src="lock", what="lock still held after the calls returned"), "a method returned while holding the cache lock: " + json.dumps(probe), dict(kind="lockprobe", probe=probe))
    ctx.log("measured lock table:", table)
    nested = {op: [x.split(":")[0] for x in probe.get("nested", {}).get(op, [])] for op in EXPECT_HOOKED}
    for k in table:
        if k.endswith("!selfdeadlock"):
            ctx.candidate(dict(src="lock", what="selfdeadlock", op=k.split("!")[0]),
                          "%s never returns even when called alone (re-acquires its own lock exclusively?): %s" % (k.split("!")[0], json.dumps(probe)),
                          dict(kind="lockprobe", probe=probe))
    if any(nested.values()):
        ctx.log("measured nested lock acquisitions:", {k: v for k, v in nested.items() if v})
    env = {"LM_" + op: table[op] for op in EXPECT_HOOKED}
    env.update({"NEST_" + op: (nested[op][0] if nested[op] and nested[op][0] in EXPECT_HOOKED else "none") for op in EXPECT_HOOKED})
    predicted = []
    for cfg in ["MC_LRUConc", "MC_LRUConc2"]:
        res = ctx.tlc("LRUConc", cfg, workers=4, env=env, expect_ok=False, timeout=900)
        if res.ok:
            continue
        races = res.vecs.get("RACE", [])
        if races:
            predicted.append((cfg, races[0]))
        elif "Deadlock reached" in res.raw:
            predicted.append((cfg, {"a": "deadlock", "b": "deadlock"}))
        else:
            raise MachineryError("LRUConc model check failed without a race/deadlock verdict:\n" + res.raw[-3000:])
    reproduced = False
    for cfg, pr in predicted[:1]:
        if pr["a"] == "deadlock":
            # the model deadlocks: a method re-acquires the lock it holds and a writer arrives in between.
            # Targeted runs: each nesting method against each exclusively locking method, with a watchdog.
            pairs = ["%s,%s" % (op, w) for op in EXPECT_HOOKED if nested[op] for w in EXPECT_HOOKED if table[w] == "W" and w != op]
            pairs = pairs or ["Store,Dump"]
        else:
            pairs = ["%s,%s" % (pr["a"], pr["b"])]
        for pair in pairs:
            ctx.log("model predicts", "a deadlock" if pr["a"] == "deadlock" else "a race", "- targeted run of", pair, "under the race detector")
            rr, err, races = run_race(ctx, vhr, ["lru-hammer", "-pair", pair, "-ms", "3000", "-procs", "4", "-caps", "3,8,1"], timeout=300)
            bad = races or (rr is not None and ("HAMMER-FAIL" in rr.stdout or rr.returncode not in (0, 66)))
            if bad:
                reproduced = True
                fns, lines = race_summary(races[0]) if races and races[0] != "timeout" else ([], [])
                what = (rr.stdout.strip()[:400] if rr is not None and "HAMMER-FAIL" in rr.stdout else "")
                ctx.candidate(dict(src="lockmodel", pair=sorted(pair.split(",")), table=table, nested={k: v for k, v in nested.items() if v}),
                              "lock protocol measured on the code (modes %s, nested acquisitions %s) violates the LRUConc model (%s in %s); reproduced by a targeted run of %s: %s %s %s" % (
                                  table, {k: v for k, v in nested.items() if v}, "deadlock" if pr["a"] == "deadlock" else "NoRace counterexample", cfg, pair, fns, lines, what),
                              dict(kind="pair", pair=pair, table=table))
                break
        if not reproduced:
            # the measured protocol differs from the mechanism spec but no real execution misbehaved: a DRIFT note
            # (e.g. a lock-free method that is correct by other means); the remaining verdict sources still run.
            ctx.note("DRIFT: TLC predicts %s with lock table %s / nesting %s; targeted runs %s did not reproduce it - not a verdict" % (
                "a deadlock" if pr["a"] == "deadlock" else "a race for %s,%s" % (pr["a"], pr["b"]), table, nested, pairs))

    # ---- 3. plain stress under the race detector --------------------------------------------------
    rr, err, races = run_race(ctx, vhr, ["lru-hammer", "-ms", "800" if quick else "4000", "-procs", "8", "-caps", "0,1,3,8"], timeout=600)
    hammer_ops = 0
    if rr is None:
        ctx.candidate(dict(src="hammer", what="deadlock"), "stress run did not terminate (deadlock)", dict(kind="hammer"))
    else:
        m = re.search(r"HAMMER-OK ops=(\d+)", rr.stdout)
        hammer_ops = int(m.group(1)) if m else 0
        if "HAMMER-STALL" in rr.stdout:
            raise MachineryError("stress run stalled without a goroutine parked in the cache lock: " + rr.stdout[-300:])
        if "HAMMER-FAIL" in rr.stdout:
            ctx.candidate(dict(src="hammer", what="invariant"), "stress run: " + rr.stdout.strip()[:300], dict(kind="hammer"))
        if "panic:" in err or "fatal error" in err:
            ctx.candidate(dict(src="hammer", what="panic"), "stress run crashed: " + err[-800:], dict(kind="hammer"))
        if races and not reproduced:
            fns, lines = race_summary(races[0])
            ctx.candidate(dict(src="race", fns=fns), "data race reported by the race detector during the stress run: %s %s" % (fns, lines),
                          dict(kind="hammer", report=races[0][:3000]))
        if not m and not races and "HAMMER-FAIL" not in rr.stdout:
            raise MachineryError("hammer produced no result: rc=%s %s" % (rr.returncode, err[-500:]))

    # ---- 2. linearizability of recorded histories -------------------------------------------------
    shards = 8
    nh = 1600 if quick else 16000
    pre = ctx.path("lruconc")
    rr, err, races2 = run_race(ctx, vhr, ["lru-conc-record", "-n", str(nh), "-procs", "4", "-ops", "5", "-caps", "0,1,2,3",
                                          "-keys", "3", "-shards", str(shards), "-out", pre], timeout=1200)
    if rr is None:
        raise MachineryError("conc-record timed out")
    if "aborted after history" in err:
        ctx.log("conc-record:", [l for l in err.splitlines() if "aborted after history" in l][0][:300])
    m = re.search(r"histories=(\d+) overlapping=(\d+)", err)
    if not m and crashed(err):
        ctx.candidate(dict(src="record", what="crash"), "the process recording concurrent histories crashed inside the cache: " + crash_excerpt(err),
                      dict(kind="record-crash", stderr=err[-3000:]))
        return finish_after_crash(ctx, table)
    if not m:
        raise MachineryError("conc-record failed: " + err[-1500:])
    histories, overlapping = int(m.group(1)), int(m.group(2))
    if races2 and not reproduced and not ctx.violations:
        fns, lines = race_summary(races2[0])
        ctx.candidate(dict(src="race", fns=fns), "data race reported while recording concurrent histories: %s %s" % (fns, lines),
                      dict(kind="record", report=races2[0][:3000]))
    files = [pre + ".%d.ndjson" % i for i in range(shards)]
    files = [f for f in files if os.path.exists(f) and os.path.getsize(f) > 0]
    lin_rejects = 0
    events = 0
    sample = None
    for f, rej, res in validate_traces(ctx, files, spec="Trace_LRUConc", workers=8):
        evs = common.read_ndjson(f)
        events += len(evs)
        if sample is None:
            sample = evs[:12]
        for e in evs:
            if e["e"] == "panic" and e["res"].startswith("stalled"):
                raise MachineryError("recording stalled without a goroutine parked in the cache lock (overloaded machine?): " + e["res"])
            if e["e"] == "panic":
                ctx.candidate(dict(src="history", what="panic"), "concurrent history crashed or deadlocked: " + e["res"][:300], dict(kind="history-panic", event=e))
        if rej is not None:
            lin_rejects += 1
            sl, pos = slice_of(evs, rej)
            if sl and sl[min(pos, len(sl) - 1)]["e"] == "panic":
                continue
            ctx.candidate(dict(src="history", what="not-linearizable"),
                          "recorded concurrent history has no linearization in the LRU model (stuck at event %d: %s): %s" % (
                              pos, json.dumps(sl[min(pos, len(sl) - 1)]), json.dumps(sl)[:1500]), dict(kind="history", events=sl, failing=pos))

    # long histories ordered by under-lock stamps
    longf = ctx.path("lrulong.ndjson")
    rr, err, races3 = run_race(ctx, vhr, ["lru-conc-long", "-procs", "16", "-ops", "300" if quick else "1500", "-caps", "0,1,2,4,8",
                                          "-keys", "12", "-rounds", "5" if quick else "10", "-out", longf], timeout=1800)
    if rr is not None and rr.returncode not in (0, 66) and crashed(err):
        ctx.candidate(dict(src="long", what="crash"), "the long concurrent run crashed inside the cache: " + crash_excerpt(err),
                      dict(kind="long-crash", stderr=err[-3000:]))
        return finish_after_crash(ctx, table)
    if rr is None or rr.returncode not in (0, 66):
        raise MachineryError("conc-long failed: " + (err or "")[-1500:])
    if races3 and not reproduced and not ctx.violations:
        fns, lines = race_summary(races3[0])
        ctx.candidate(dict(src="race", fns=fns), "data race reported during the long concurrent run: %s %s" % (fns, lines), dict(kind="long", report=races3[0][:3000]))
    long_events = 0
    for f, rej, res in validate_traces(ctx, [longf], spec="Trace_LRU", workers=1):
        evs = common.read_ndjson(f)
        long_events = len(evs)
        for e in evs:
            if e["e"] == "panic":
                ctx.candidate(dict(src="long", what="panic"), "long concurrent run crashed or deadlocked: " + e["res"][:300], dict(kind="long-panic", event=e))
        if rej is not None:
            sl, pos = slice_of(evs, rej)
            bad = sl[min(pos, len(sl) - 1)]
            if bad["e"] != "panic":
                ctx.candidate(dict(src="long", what="order", e=bad["e"], op=bad["op"]),
                              "long concurrent run ordered by under-lock stamps is not a run of the LRU model at event %d: %s (previous: %s)" % (
                                  pos, json.dumps(bad), json.dumps(sl[max(0, pos - 3):pos])), dict(kind="long", failing=pos, tail=sl[max(0, pos - 50):pos + 1]))

    cov = dict(
        states=ctx.states, transitions=ctx.transitions,
        traces_validated_against_impl=histories + 1,
        histories=histories, histories_with_overlap=overlapping, history_events=events,
        long_run_events=long_events, hammer_ops_under_race_detector=hammer_ops,
        lock_table=table, model_predicted_races=[p[1] for p in predicted],
        evaluations=histories + long_events + hammer_ops,
        distinct_nontrivial=overlapping,
        rule="histories: 2-4 goroutines x 3-5 random ops on cap 0..3 with 2-3 keys, non-trivial = at least two calls overlap in real time; "
             "long runs: 16 goroutines, ordered by under-lock stamps; stress: 8 goroutines under the race detector",
        exhaustive=False,
        samples=[sample],
    )
    if overlapping < histories // 10:
        ctx.note("few overlapping histories: %d of %d" % (overlapping, histories))
    return ctx.finish("model_checking", cov, [
        "no-data-race is decided at model level on the measured lock table and, on real runs, by the Go race detector",
        "inv/ret stamps come from one atomic counter; the log can lose precedences but not invent them",
        "lock table extraction is exact only single-goroutine, which is how it is run",
    ])
