"""Shared code of the `rules` family: C01 (size/comparison rules) and C18 (carrier agreement).

Oracle = TLA+ (spec/Rules.tla):
  * MC_Rules*.cfg      TLC checks  mechanism (validInputSize / eq transcribed per kind) = contract  on the whole window
  * Gen_Rules.tla      TLC prints, per (rule, lo, hi, kind), the contract's verdict for every value of the window
                       (model -> code); the harness sends each value through every carrier of the real library
  * Judge_Rules.tla    TLC judges recordings of seeded random calls of the real library in constant mode (code -> model)
Python only concretises (rule text), abstracts (clause present / token present) and compares for equality.
"""
import json
import os
import re
from concurrent.futures import ThreadPoolExecutor

from . import common
from .common import MachineryError

HERE = os.path.dirname(os.path.abspath(__file__))
SCALAR_KINDS = ["string", "string_delim", "int8", "int16", "int32", "int64", "int", "uint8", "uint16", "uint32", "uint64", "uint",
                "float32", "float64"]
C01_KINDS = SCALAR_KINDS + ["slice_int", "slice_string"]
C01_CARRIERS = ["tag", "rm", "var", "map", "url", "urle", "urlw"]
C18_CARRIERS = ["tag", "var", "map", "mapiface", "slicemap", "url", "urle", "urln", "urlne", "urlw", "urlwn"]
CLASS = dict(string="string", string_delim="string", slice_int="slice", slice_string="slice", float32="float", float64="float")


def cls_of(kind):
    return CLASS.get(kind) or ("uint" if kind.startswith("uint") else "int")


def setup(ctx):
    """Family-owned proposals for known_findings.json (the coordinator moves them there); merged in memory only."""
    p = os.path.join(HERE, "fam_rules_findings.json")
    if os.path.exists(p):
        have = {f.get("id") for f in ctx.findings.setdefault("findings", [])}
        for f in json.load(open(p)).get("findings", []):
            if f.get("id") not in have:
                ctx.findings["findings"].append(f)


def write_cfg(ctx, name, lines):
    open(os.path.join(ctx.spec_dir(), name + ".cfg"), "w").write("\n".join(lines) + "\n")
    return name


# ------------------------------------------------------------------------------------------------ design check
def model_check(ctx):
    """mechanism = contract on the window; and the sanity run: the pinned mechanism must be refuted by TLC."""
    quick = ctx.quick()
    cfg = "MC_Rules" if quick else "MC_Rules_thorough"
    outp = ctx.path("tlc-%s-%d.out" % (cfg, len(ctx.tlc_runs)))
    mc = ctx.tlc("Rules", cfg, workers=4, coverage=not quick)
    if not quick:       # -coverage 1: every action of the mechanism must have been taken
        taken = {}
        for line in open(outp, errors="replace"):
            m = re.match(r"^<(\w+) line (\d+), .*>: (\d+):(\d+)", line)
            if m:
                taken[m.group(1) + "@" + m.group(2) + line[line.find("("):line.find(")") + 1]] = int(m.group(4))
        names = {k.split("@")[0] for k, v in taken.items() if v > 0}
        want = {"Pick", "Call", "CallEq", "SizeString", "SizeFloat", "SizeInt", "SizeUint", "SizeSlice",
                "EqString", "EqInt", "EqUint", "EqFloat", "EqSlice", "Ret"}
        zero = [k for k, v in taken.items() if v == 0]
        if zero or not want <= names or sum(1 for k in taken if k.startswith("Call@")) != 6:
            raise MachineryError("vacuous: actions never taken in %s: zero=%s missing=%s" % (cfg, zero[:5], sorted(want - names)))
        ctx.cov["mc_actions_taken"] = len(taken)
    pin = ctx.tlc("Rules", "MC_Rules_pinned", workers=1, expect_ok=False, count=False)
    if pin.ok or not pin.invariant_violated:
        raise MachineryError("sanity: TLC did not refute the pinned mechanism (model cannot see defect class D1)")
    return mc


# ------------------------------------------------------------------------------------------------ model -> code
def generate(ctx, w):
    cfg = write_cfg(ctx, "Gen_Rules_run", [
        "CONSTANTS", "  W = %d" % w, "  Pinned = FALSE",
        '  GenRules = {"to", "ge", "le", "oto", "gt", "lt", "eq", "noeq"}', "  EmitVals = TRUE",
        "SPECIFICATION GenSpec", "CHECK_DEADLOCK FALSE", "INVARIANTS Emit"])
    res = ctx.tlc("Gen_Rules", cfg, workers=1)
    vals = {v["kind"]: v["vals"] for v in res.vecs.get("VALS", [])}
    groups = res.vecs.get("GRP", [])
    if len(vals) != 16 or not groups:
        raise MachineryError("Gen_Rules emitted %d value lists / %d groups" % (len(vals), len(groups)))
    groups.sort(key=lambda g: (g["kind"], g["rule"], g["lo"], g["hi"]))
    for i, g in enumerate(groups):
        g["gid"] = i
        g["msg"] = "tk0" if i % 2 else ""       # every other group carries a custom message
        if len(g["viol"]) != len(vals[g["kind"]]):
            raise MachineryError("group/value list length mismatch for %s" % g["kind"])
    return vals, groups


def rule_text(g):
    r = g["rule"]
    s = "%s=%d~%d" % (r, g["lo"], g["hi"]) if r in ("to", "oto") else "%s=%d" % (r, g["hi"] if r in ("le", "lt") else g["lo"])
    return s + ("|" + g["msg"] if g.get("msg") else "")


def corrupt_mode():
    return os.environ.get("VERIF_RULES_CORRUPT", "")


def replay_groups(ctx, vh, vals, groups, kinds, carriers):
    """Send every vector of the groups through the carriers; compare with TLC's bits. Returns statistics."""
    groups = [g for g in groups if g["kind"] in kinds]
    if corrupt_mode() == "vector":      # binding demonstration: flip one expected bit -> the check must go red
        g = groups[len(groups) // 2]
        g["viol"][0] = 1 - g["viol"][0]
        ctx.note("SELFTEST: flipped the expected verdict of vector 0 of group %s %s" % (g["kind"], rule_text(g)))
    inp = ctx.path("groups-%s.ndjson" % ctx.pid)
    rows = [dict(t="vals", kind=k, vals=vals[k]) for k in kinds]
    rows += [dict(t="grp", gid=g["gid"], kind=g["kind"], rule=g["rule"], lo=g["lo"], hi=g["hi"], msg=g["msg"]) for g in groups]
    common.write_ndjson(inp, rows)
    outp = ctx.path("groups-%s.out.ndjson" % ctx.pid)
    ctx.run_vh(vh, ["rules-groups", "-carriers", ",".join(carriers)], stdin_path=inp, stdout_path=outp)
    byid = {g["gid"]: g for g in groups}
    st = dict(calls=0, vectors=0, violated=0, satisfied=0, near=0, groups=len(groups), per_carrier={}, per_class={}, mismatches=0)
    summary = None
    found = {}
    sample = None
    for r in common.read_ndjson(outp):
        if r["t"] == "summary":
            summary = r
            continue
        g = byid[r["gid"]]
        # (the harness spells the bounds of one rule text in four with leading zeros: 010 is ten)
        if re.sub(r"(?<![0-9])(-?)0+(?=[0-9])", r"\1", r["rules"].split("|")[0]) + r["rules"][len(r["rules"].split("|")[0]):] != rule_text(g):
            raise MachineryError("rule text differs between harness and orchestrator: %r / %r" % (r["rules"], rule_text(g)))
        viol, near = g["viol"], g["near"]
        st["vectors"] += len(viol)
        st["violated"] += sum(viol)
        st["satisfied"] += len(viol) - sum(viol)
        st["near"] += sum(near)
        c = cls_of(g["kind"])
        st["per_class"][c] = st["per_class"].get(c, 0) + len(viol)
        for car, bits in r["obs"].items():
            if len(bits) != len(viol):
                raise MachineryError("observation length mismatch")
            n = 0
            for i, ch in enumerate(bits):
                if ch == "-":
                    continue
                n += 1
                if ch == ("1" if viol[i] else "0"):
                    continue
                st["mismatches"] += 1
                expected = "violated" if viol[i] else "satisfied"
                observed = {"0": "none", "1": "clause", "E": "error", "P": "panic"}.get(ch, ch)
                cg = car if car in ("mapiface", "url", "urle", "urln", "urlne", "urlw", "urlwn") else "any"
                key = (c, g["rule"], cg, expected, observed, g["kind"] == "string_delim")
                f = found.setdefault(key, dict(n=0, carriers={}, first=None))
                f["n"] += 1
                f["carriers"][car] = f["carriers"].get(car, 0) + 1
                if f["first"] is None:
                    v = vals[g["kind"]][i]
                    f["first"] = dict(kind="vector", vec=dict(kind=g["kind"], n=v["n"], far=v["far"], cps=v["cps"], eps=v.get("eps", 0), rules=r["rules"], carrier=car),
                                      rule=g["rule"], lo=g["lo"], hi=g["hi"], expected_violated=bool(viol[i]), observed=observed)
            st["per_carrier"][car] = st["per_carrier"].get(car, 0) + n
            st["calls"] += n
        if sample is None and sum(viol) not in (0, len(viol)) and g["kind"] == "uint8":
            sample = dict(rule=r["rules"], kind=g["kind"], values="1..255", expected_violated_bits="".join(map(str, viol))[:16] + "...",
                          observed={k: v[:16] + "..." for k, v in r["obs"].items()})
    if not summary or summary["groups"] != len(groups) or summary["calls"] != st["calls"]:
        raise MachineryError("group replay incomplete: %s vs %d groups / %d calls" % (summary, len(groups), st["calls"]))
    for key, f in sorted(found.items(), key=lambda kv: str(kv[0])):
        c, rule, cg, expected, observed, delim = key
        rep = f["first"]
        sig = dict(src="vector", cls=c, rule=rule, carrier=rep["vec"]["carrier"], expected=expected, observed=observed, delim=delim)
        v = rep["vec"]
        ctx.candidate(sig, "%s value under %s expected %s by the contract, real code shows %s (%d vectors; carriers %s); first: kind=%s value=%s carrier=%s" % (
            c, v["rules"], expected, observed, f["n"], json.dumps(f["carriers"], sort_keys=True), v["kind"],
            v["cps"] if c == "string" else ("far%+d" % v["far"] if v["far"] else ("%s%s" % (v["n"], {1: "+eps", -1: "-eps"}.get(v.get("eps", 0), "")))), v["carrier"]), rep)
    st["sample"] = sample
    return st


# ------------------------------------------------------------------------------------------------ code -> model
def judge(ctx, path, mode, tag):
    res = ctx.tlc("Judge_Rules", "Judge_Rules", workers=1, env={"FILE": path, "MODE": mode}, tag=tag, timeout=3000)
    j = res.vecs.get("JUDGED")
    if not j:
        raise MachineryError("judge produced no @@JUDGED line for %s" % path)
    return j[0]["n"], res.vecs.get("BAD", [])


def shard(ctx, rows, name, n):
    files = []
    k = max(1, min(n, len(rows) // 2000 or 1))
    for i in range(k):
        p = ctx.path("%s-%d.ndjson" % (name, i))
        common.write_ndjson(p, rows[i::k])
        files.append(p)
    return files


def judge_all(ctx, rows, mode, name):
    files = shard(ctx, rows, name, 4)
    with ThreadPoolExecutor(max_workers=4) as ex:
        outs = list(ex.map(lambda f: judge(ctx, f, mode, os.path.basename(f).replace(".", "_")), files))
    n = sum(o[0] for o in outs)
    if n != len(rows):
        raise MachineryError("judge saw %d of %d records" % (n, len(rows)))
    return [b for o in outs for b in o[1]]


def record_tuples(ctx, vh, n):
    p = ctx.path("tuples.ndjson")
    ctx.run_vh(vh, ["rules-record", "-n", str(n), "-out", p, "-carriers", ",".join(C01_CARRIERS)])
    rows = common.read_ndjson(p)
    good = [r for r in rows if "bad" not in r]
    for r in rows:
        if "bad" in r:
            ob = r["bad"]
            ctx.candidate(dict(src="tuple", cls=cls_of(r["kind"]), rule=r["rule"], carrier=r["carrier"], expected="?",
                               observed="panic" if ob["verdict"] == "P" else "error", delim=False),
                          "call with a well-formed rule did not answer with rule clauses: %s" % json.dumps(r, ensure_ascii=False)[:400],
                          dict(kind="tuple", rec=r))
    if corrupt_mode() == "tuple":
        good[7]["violated"] = not good[7]["violated"]
        ctx.note("SELFTEST: flipped the logged verdict of recorded tuple id=%d" % good[7]["id"])
    bad = judge_all(ctx, good, "tuples", "tuples")
    byid = {r["id"]: r for r in good}
    seen = set()
    for b in bad:
        r = byid[b["id"]]
        key = (cls_of(r["kind"]), r["rule"], r["violated"])
        if key in seen:
            continue
        seen.add(key)
        ctx.candidate(dict(src="tuple", cls=key[0], rule=r["rule"], carrier=r["carrier"], expected="satisfied" if r["violated"] else "violated",
                           observed="clause" if r["violated"] else "none", delim=False),
                      "recorded call rejected by the contract (TLC): %s" % json.dumps(r, ensure_ascii=False)[:400], dict(kind="tuple", rec=r))
    st = dict(recorded=len(rows), judged=len(good), rejected=len(bad), violated=sum(1 for r in good if r["violated"]),
              big_bounds=sum(1 for r in good if abs(r["lo"]) > 1000), bounds_beyond_32bit=sum(1 for r in good if abs(r["lo"]) > 300000000),
              per_carrier={}, sample=good[3] if len(good) > 3 else None)
    for r in good:
        st["per_carrier"][r["carrier"]] = st["per_carrier"].get(r["carrier"], 0) + 1
    return st


def has_delim(rec):
    return any(c in (38, 61) for c in rec.get("cps", []))


def classify_agree(ctx, rec, b):
    """Turn one record rejected by the judge into candidates (one per deviating carrier)."""
    obs = {o["c"]: o for o in rec["obs"]}
    ref = rec["obs"][0]
    for car in sorted(set(b["differ"]) | set(b["offmodel"])):
        o = obs[car]
        observed = "panic" if o["v"] == "P" else ("none" if not o["bodies"] else "clause")
        if car != ref["c"]:
            expected = "violated" if ref["bodies"] else "satisfied"
        else:
            expected = "violated" if not o["bodies"] else "other"
        yield car, dict(src="agree", cls=cls_of(rec["kind"]), rule="list", carrier=car, expected=expected, observed=observed,
                        delim=has_delim(rec) and car in ("urle", "urlne"))


def record_agree(ctx, vh, n):
    p = ctx.path("agree.ndjson")
    ctx.run_vh(vh, ["rules-agree", "-n", str(n), "-out", p, "-carriers", ",".join(C18_CARRIERS)])
    rows = common.read_ndjson(p)
    if corrupt_mode() == "agree":
        r = next(r for r in rows if len(r["obs"]) > 3 and r["obs"][0]["toks"])
        r["obs"][2]["toks"] = []
        ctx.note("SELFTEST: removed the tokens seen by carrier %s in agreement record id=%d" % (r["obs"][2]["c"], r["id"]))
    bad = judge_all(ctx, rows, "agree", "agree")
    byid = {r["id"]: r for r in rows}
    seen = {}
    for b in bad:
        rec = byid[b["id"]]
        for car, sig in classify_agree(ctx, rec, b):
            key = (sig["cls"], car, sig["expected"], sig["observed"], sig["delim"])
            if key in seen:
                seen[key] += 1
                continue
            seen[key] = 1
            ctx.candidate(sig, "carriers disagree (judged by TLC): value %s kind %s rules %s: carrier %s shows %s, %s shows %s" % (
                json.dumps(rec.get("str") or rec["n"], ensure_ascii=False), rec["kind"], [r["text"] for r in rec["rules"]], car,
                next(o["bodies"] for o in rec["obs"] if o["c"] == car), rec["obs"][0]["c"], rec["obs"][0]["bodies"]),
                dict(kind="agree", rec=rec))
    st = dict(records=len(rows), rejected=len(bad), rejected_only_mapiface=sum(1 for b in bad if set(b["differ"]) | set(b["offmodel"]) == {"mapiface"}),
              calls=sum(len(r["obs"]) for r in rows),
              with_violation=sum(1 for r in rows if r["obs"][0]["bodies"]),
              with_satisfied_rule=sum(1 for r in rows if len(r["obs"][0]["toks"]) < len(r["rules"])),
              multi_rule=sum(1 for r in rows if len(r["rules"]) > 1),
              format_rules=sum(1 for r in rows for x in r["rules"] if not x["iv"]),
              interval_rules=sum(1 for r in rows for x in r["rules"] if x["iv"]),
              encoded_delims=sum(1 for r in rows if has_delim(r) and any(o["c"] == "urle" for o in r["obs"])),
              string_values=sum(1 for r in rows if r["kind"] == "string"),
              sample=next((dict(value=r["str"], rules=[x["text"] for x in r["rules"]], obs={o["c"]: o["toks"] for o in r["obs"]})
                           for r in rows if r["kind"] == "string" and len(r["rules"]) > 1 and r["obs"][0]["toks"]), None))
    return st


# ------------------------------------------------------------------------------------------------ replay of one stored case
def replay(ctx, vh):
    r = json.load(open(ctx.replay))["replay"]

    def one(kind, n, far, cps, rules, carrier, eps=0):
        out = ctx.run_vh(vh, ["rules-one"], stdin_data=json.dumps(dict(kind=kind, n=n, far=far, cps=cps, eps=eps, rules=rules, carrier=carrier)) + "\n").stdout
        return json.loads(out.splitlines()[-1])["obs"]

    if r["kind"] in ("vector", "tuple"):
        if r["kind"] == "vector":
            v = r["vec"]
            rec = dict(id=1, rule=r["rule"], lo=r["lo"], hi=r["hi"], kind=v["kind"], n=v["n"], far=v["far"], cps=v["cps"], eps=v.get("eps", 0), carrier=v["carrier"], rules=v["rules"])
        else:
            rec = dict(r["rec"])
            rec.pop("bad", None)
            rec["id"] = 1
        ob = one(rec["kind"], rec["n"], rec["far"], rec["cps"], rec["rules"], rec["carrier"], rec.get("eps", 0))
        ctx.log("real code: %s" % json.dumps(ob, ensure_ascii=False))
        if ob["verdict"] not in "01":
            ctx.candidate(dict(src="replay", carrier=rec["carrier"], observed="error"), "replayed call answers %s" % json.dumps(ob, ensure_ascii=False), r)
        else:
            rec["violated"] = ob["verdict"] == "1"
            p = ctx.path("replay.ndjson")
            common.write_ndjson(p, [rec])
            n, bad = judge(ctx, p, "tuples", "replay")
            if bad:
                ctx.candidate(dict(src="replay", cls=cls_of(rec["kind"]), rule=rec["rule"], carrier=rec["carrier"],
                                   expected="satisfied" if rec["violated"] else "violated", observed="clause" if rec["violated"] else "none",
                                   delim=rec["kind"] == "string_delim"),
                              "replayed: %s value under %s through %s: real code %s, contract says the opposite (%s)" % (
                                  rec["kind"], rec["rules"], rec["carrier"], "reports a violation" if rec["violated"] else "reports nothing",
                                  json.dumps(ob, ensure_ascii=False)[:300]), r)
    else:
        rec = dict(r["rec"])
        rules = ",".join(x["text"] for x in rec["rules"])
        obs = []
        for o in rec["obs"]:
            ob = one(rec["kind"], rec["n"], rec["far"], rec["cps"], rules, o["c"], rec.get("eps", 0))
            obs.append(dict(c=o["c"], toks=ob["toks"], bodies=ob["bodies"] + (["panic: " + ob["panic"]] if ob.get("panic") else []), v=ob["verdict"]))
        rec["obs"] = obs
        rec["id"] = 1
        p = ctx.path("replay.ndjson")
        common.write_ndjson(p, [rec])
        n, bad = judge(ctx, p, "agree", "replay")
        for b in bad:
            for car, sig in classify_agree(ctx, rec, b):
                ctx.candidate(sig, "replayed: carrier %s shows %s, %s shows %s" % (car, next(o["bodies"] for o in obs if o["c"] == car),
                                                                                 obs[0]["c"], obs[0]["bodies"]), r)
    return ctx.finish("model_checking", dict(evaluations=1, distinct_nontrivial=0, samples=[r], replay=True, traces_validated_against_impl=1))


COMMON_ASSUMPTIONS = [
    "bounds are decimal integers (rule-writing errors belong to C13); rules are well-formed, one clause or more for the rule counts as 'violated' "
    "(how many clauses a violated rule emits is C02's business, e.g. to=5~1)",
    "zero values ('' / 0 / nil or empty slice) are not generated: skipping empty values is C03's subject",
    "64-bit extremes are the symbolic exterior points +-FAR of the model, concretised as Min/Max of the Go type (all generated bounds are |b| <= 10^6, "
    "the concretisation is monotone); floats are half-integers (exact in float32 and float64)",
    "values never contain '; ' (clause separator) or the label words; custom messages are tokens tk<i>",
    "raw (un-encoded) URL values containing & = ? + % # are not generated; URL carries strings only",
    "bool is not generated (Var(bool) is defect D18, owned by the `empty` family)",
    "bounds beyond 32 bits are recorded under an order-preserving renaming (real 2^40+d <-> model 4*10^8+d, TLC integers are 32-bit); "
    "narrow integer kinds and float32 then only carry values of the plain region, exterior points only for 64-bit integers and floats",
    "the many-parameter URL and the []map carrier also contain a companion entry under an always-violated rule; only clauses carrying the path "
    "of the value under test are compared (the companion's clause must be present)",
]
