"""C01 - size/comparison rules judge by the documented measure with exact boundaries.

1. MC_Rules: TLC checks that the per-kind mechanism (validInputSize / eq as repaired, unsigned at width 8) equals the
   contract Violated(rule, lo, hi, Measure) on the whole window; the pinned mechanism must be refuted (sanity).
2. Gen_Rules: TLC emits the contract's verdict for every (rule, bounds, kind, value) of the window - all 8-bit values,
   boundary values, exterior points, multi-byte strings, slices; every vector is sent through every carrier that can
   hold the kind (struct tag, struct RM override, Var, Map, Url raw / percent-encoded) and the verdicts are compared.
3. Seeded random calls with bounds up to +-10^6 and values at bound-1 / bound / bound+1 are recorded from the real
   library and judged by TLC in constant mode (Judge_Rules).
"""
from . import fam_rules as fam


def run(ctx):
    fam.setup(ctx)
    vh = ctx.build_vh()
    if ctx.replay:
        return fam.replay(ctx, vh)
    quick = ctx.quick()
    mc = fam.model_check(ctx)
    w = 3 if quick else 8
    vals, groups = fam.generate(ctx, w)
    st = fam.replay_groups(ctx, vh, vals, groups, fam.C01_KINDS, fam.C01_CARRIERS)
    ctx.log("replayed %d vectors (%d groups) through %d real calls: %d mismatches" % (st["vectors"], st["groups"], st["calls"], st["mismatches"]))
    tp = fam.record_tuples(ctx, vh, 80000 if quick else 1000000)
    ctx.log("judged %d recorded random calls: %d rejected" % (tp["judged"], tp["rejected"]))
    cov = dict(
        traces_validated_against_impl=tp["judged"],
        evaluations=st["calls"] + tp["judged"],
        distinct_nontrivial=st["near"],
        rule="vectors = (rule, lo, hi, kind, value) with lo,hi in -%d..%d (all pairs incl. lo>hi), 8 rules, 16 kinds, all 8-bit values, "
             "boundary/exterior values, strings of 1..%d runes over 1-/2-/3-/4-byte alphabets, slices of 1..%d elements; each replayed through "
             "every carrier that can hold it; distinct_nontrivial = vectors whose measure is at bound-1, bound or bound+1 of one of the rule's bounds"
             % (w, w, w + 3, w + 3),
        exhaustive=True,
        vectors=st["vectors"], groups=st["groups"], vectors_expected_violated=st["violated"], vectors_expected_satisfied=st["satisfied"],
        boundary_vectors=st["near"], real_calls_per_carrier=st["per_carrier"], vectors_per_class=st["per_class"], mismatching_calls=st["mismatches"],
        random_tuples=dict(recorded=tp["recorded"], judged_by_tlc=tp["judged"], rejected=tp["rejected"], logged_violated=tp["violated"],
                           bounds_beyond_1000=tp["big_bounds"], bounds_beyond_32bit=tp["bounds_beyond_32bit"], per_carrier=tp["per_carrier"]),
        mc_distinct_states=mc.distinct, mc_actions_taken_in_coverage_run=ctx.cov.get("mc_actions_taken"),
        samples=[st["sample"], tp["sample"]],
    )
    return ctx.finish("model_checking", cov, fam.COMMON_ASSUMPTIONS + [
        "arrays are not generated (the statement says slice); slices are non-empty []int / []string, carried by struct fields and Var only "
        "(the README documents scalar map values only)",
        "string values of C01 contain no URL delimiters (those are C18's vectors)",
    ])
