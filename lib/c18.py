"""C18 - the same rule on the same value gives the same verdict through every entry point.

1. MC_Rules: the contract has no carrier argument; mechanism = contract on the window (as C01).
2. Gen_Rules: TLC's verdicts for every scalar vector of the window (incl. strings containing & = ? % + #) are compared
   with what the real library answers through struct field, Var, map[string]T, map[string]interface{}, []map[string]T
   and URL (one / many shuffled parameters, raw / percent-encoded).
3. Seeded random (value, rule list) pairs - interval rules and format rules with fixed arguments, every rule tagged
   by its own custom message - are sent through all carriers; TLC judges in constant mode that all carriers show the
   same set of violated rules (and the same clause texts up to the path prefix) and, for interval rules, the model's set.
"""
from . import fam_rules as fam


def run(ctx):
    fam.setup(ctx)
    vh = ctx.build_vh()
    if ctx.replay:
        return fam.replay(ctx, vh)
    quick = ctx.quick()
    mc = fam.model_check(ctx)
    w = 3 if quick else 8
    vals, groups = fam.generate(ctx, w)
    st = fam.replay_groups(ctx, vh, vals, groups, fam.SCALAR_KINDS, fam.C18_CARRIERS)
    ctx.log("replayed %d scalar vectors (%d groups) through %d real calls: %d mismatches" % (st["vectors"], st["groups"], st["calls"], st["mismatches"]))
    ag = fam.record_agree(ctx, vh, 30000 if quick else 200000)
    ctx.log("judged %d recorded (value, rule list) pairs over %d real calls: %d rejected" % (ag["records"], ag["calls"], ag["rejected"]))
    sample2 = ag.pop("sample")
    cov = dict(
        traces_validated_against_impl=ag["records"],
        evaluations=st["calls"] + ag["calls"],
        distinct_nontrivial=st["violated"] + ag["with_violation"],
        rule="vectors as C01 restricted to the 13 scalar kinds plus delimiter-carrying strings, each through struct tag, Var, map[string]T, "
             "map[string]interface{}, []map[string]T, URL raw/encoded x one/many shuffled parameters; recordings = random value x 1..3 rules "
             "(8 interval rules with random bounds, 22 format rules with fixed arguments) through all 9 carriers; distinct_nontrivial = vectors "
             "the contract calls violated + recorded pairs in which at least one rule fired",
        exhaustive=True,
        vectors=st["vectors"], groups=st["groups"], vectors_expected_violated=st["violated"], vectors_expected_satisfied=st["satisfied"],
        real_calls_per_carrier=st["per_carrier"], mismatching_calls=st["mismatches"],
        agreement_recordings=ag,
        mc_distinct_states=mc.distinct, mc_actions_taken_in_coverage_run=ctx.cov.get("mc_actions_taken"),
        samples=[st["sample"], sample2],
    )
    return ctx.finish("model_checking", cov, fam.COMMON_ASSUMPTIONS + [
        "format rules (phone, email, idcard, int, float, ints, in, include, prefix, suffix, year, year2month, date, datetime, ip, ipv4, ipv6, unique, "
        "json, re) are used with fixed sample arguments; for them only the agreement of the carriers is judged - their languages are C05's subject; "
        "file/dir are not generated (file-system dependent)",
        "string rules are not applied to numeric kinds (only in / int / float are, as the documentation allows)",
        "exhaustive only for the interval-rule window; the (value, rule list) recordings are seeded random samples",
    ])
