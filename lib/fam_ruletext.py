"""Rule-text family: C14 (builder / splitter / parser round trip) and C15 (custom messages, explanation extractor).

Oracle: spec/RuleText.tla and spec/Explain.tla evaluated by TLC.
  C14  MC_RuleText*.cfg   mechanism (per-character splitter, parser) => laws, exhaustively on small windows
       Gen_RuleText       emits the windows (alphabet, documented values / messages, rule pools)
       vh ruletext-split / ruletext-rt   run the real ValidNamesSplit / GenValidKV / RM.Set / ParseValidNameKV
       Judge_RuleText     TLC evaluates the LAWS on every recorded output (constant mode); @@BAD lines are candidates
  C15  MC_Explain*.cfg    extractor loop at byte grain = Extract, no slice out of bounds
       Gen_Explain        emits every clause sequence / sweep case with the contract's expectation
       vh ruletext-explain  produces the errors with the real library and runs GetOnlyExplainErr on them
Python only concretises (message ids -> strings, path tokens -> paths), abstracts (error text -> clauses) and compares.
"""
import json
import os
from concurrent.futures import ThreadPoolExecutor

from . import common
from .common import MachineryError

PAR = 4  # parallel TLC / harness processes


def _cfg_variant(ctx, base, name, repl):
    d = ctx.spec_dir()
    txt = open(os.path.join(d, base + ".cfg")).read()
    for a, b in repl.items():
        if a not in txt:
            raise MachineryError("cfg %s has no %r" % (base, a))
        txt = txt.replace(a, b)
    open(os.path.join(d, name + ".cfg"), "w").write(txt)
    return name


def _parallel(fns):
    with ThreadPoolExecutor(max_workers=PAR) as ex:
        futs = [ex.submit(f) for f in fns]
        return [f.result() for f in futs]


def _zero_actions(ctx, tag, allowed=()):
    """actions never taken in a '-coverage 1' run (TLC prints '<Action line ...>: 0:0'); vacuity is a machinery error"""
    import glob
    import re
    zero = []
    for f in glob.glob(os.path.join(ctx.work, "tlc-%s-*.out" % tag)):
        for line in open(f, errors="replace"):
            m = re.match(r"^<(\w+) line \d+, col \d+ to line \d+, col \d+ of module \w+>: 0:0\s*$", line)
            if m and m.group(1) not in allowed:
                zero.append(m.group(1))
    if zero:
        raise MachineryError("vacuous: actions never taken in %s: %s" % (tag, zero))


def _sanity_must_fail(ctx, module, cfg, inv):
    """A deliberately wrong mechanism variant (the pinned code) must be rejected by TLC: shows the model can see the defect."""
    res = ctx.tlc(module, cfg, workers=2, expect_ok=False, count=False)
    if res.ok or not res.invariant_violated or not any(i in res.invariant_violated for i in inv.split("|")):
        raise MachineryError("sanity config %s did not fail on %s (got %r)" % (cfg, inv, res.invariant_violated))
    return res


# =====================================================================================================  C14

def _bytelen(syms):
    return sum(3 if s in ("Z", "S", "M") else 1 for s in syms)


def _rt_class(rec):
    cls = []
    for r in rec["rules"]:
        if r["hm"] and _bytelen(r["m"]) == 1:
            cls.append("one-byte-message")
        if r["hm"] and not r["hv"] and "=" in r["m"]:
            cls.append("equals-in-message-of-valueless-rule")
    return "+".join(sorted(set(cls))) or "other"


def _judge(ctx, f, kind):
    tag = "judge-" + os.path.basename(f).replace(".", "_")
    res = ctx.tlc("Judge_RuleText", "Judge_RuleText", workers=1, env={"FILE": f, "KIND": kind}, tag=tag, timeout=3000)
    s = res.vecs.get("SUM")
    if not s:
        raise MachineryError("judge printed no summary for %s" % f)
    return f, kind, s[0]["n"], res.vecs.get("BAD", [])


def _corrupt(ctx, files, what):
    """selftest hook (VERIF_RULETEXT_CORRUPT): falsify one recorded output so that the binding can be demonstrated"""
    want = os.environ.get("VERIF_RULETEXT_CORRUPT")
    if want != what:
        return
    f = files[0]
    rows = common.read_ndjson(f)
    i = len(rows) // 2
    if what == "split":
        while len(rows[i]["in"]) < 2:
            i += 1
        rows[i]["out"][0] = rows[i]["out"][0] + ["a"]
    else:
        while not rows[i]["parsed"] or not rows[i]["rules"][0]["hm"]:
            i += 1
        rows[i]["parsed"][0]["m"] = rows[i]["parsed"][0]["m"][:-1]
    common.write_ndjson(f, rows)
    ctx.log("CORRUPTED record %d of %s for the binding demonstration" % (i + 1, f))


def run_c14(ctx):
    vh = ctx.build_vh()
    quick = ctx.quick()
    if ctx.replay:
        return _replay_c14(ctx, vh)

    # 1. design check: mechanism => laws
    mc_split = _cfg_variant(ctx, "MC_RuleText", "MC_RuleText_run", {"MaxLen = 5": "MaxLen = %d" % (5 if quick else 6)})
    mc_rt = _cfg_variant(ctx, "MC_RuleText_rt", "MC_RuleText_rt_run", {"NV = 2": "NV = %d" % (1 if quick else 2), "NM = 2": "NM = 2"})
    mcs = _parallel([
        lambda: ctx.tlc("RuleText", mc_split, workers=2, coverage=not quick),
        lambda: ctx.tlc("RuleText", mc_rt, workers=2, coverage=not quick),
        lambda: _sanity_must_fail(ctx, "RuleText", "MC_RuleText_pinned", "RoundTripInv"),
    ])
    if not quick:
        _zero_actions(ctx, mc_split)
        _zero_actions(ctx, mc_rt, allowed=("Empty",))      # no rule list has an empty text

    # 2. windows from the spec
    gen = ctx.tlc("Gen_RuleText", "Gen_RuleText", workers=1, env={"TIER": ctx.tier})
    try:
        alpha = gen.vecs["ALPHA"][0]
        vals = {v["k"]: v["vals"] for v in gen.vecs["VALS"]}
        msgs = gen.vecs["MSGS"][0]["msgs"]
        pool2 = gen.vecs["POOL2"][0]["rules"]
        pool3 = gen.vecs["POOL3"][0]["rules"]
        plan = gen.vecs["PLAN"][0]
    except (KeyError, IndexError) as e:
        raise MachineryError("Gen_RuleText output incomplete: %s" % e)
    keys = sorted(vals)

    # 3. real code: splitter on every string of the window + seeded random strings over a wider alphabet
    sp = ctx.path("split")
    nrand = 3000 if quick else 30000
    splan = dict(alpha=alpha["alpha"], maxlen=alpha["maxlen"], shards=PAR, out=sp, rand=nrand,
                 randalpha=["a", "b", "1", " ", ",", ",", "'", "'", "=", "|", "~", "Z", "(", ")", "/", "\\"], randlen=24)
    ctx.run_vh(vh, ["ruletext-split"], stdin_data=json.dumps(splan))
    split_files = [sp + "-%d.ndjson" % i for i in range(PAR)]
    # 4. real code: builder -> Set/Get -> splitter -> parser on every rule list of the windows
    rp = ctx.path("rt")
    rshards = PAR if quick else 2 * PAR
    rplan = dict(keys=keys, vals=vals, msgs=msgs, singles=plan["singles"], pool2=pool2, pool3=pool3,
                 pairs=True, triples=not quick, shards=rshards, out=rp)
    ctx.run_vh(vh, ["ruletext-rt"], stdin_data=json.dumps(rplan))
    rt_files = [rp + "-%d.ndjson" % i for i in range(rshards)]
    _corrupt(ctx, split_files, "split")
    _corrupt(ctx, rt_files, "rt")

    # 5. TLC judges the laws on the recorded outputs
    jobs = [(f, "split") for f in split_files] + [(sp + "-rand.ndjson", "splitr")] + [(f, "rt") for f in rt_files]
    results = _parallel([(lambda f=f, k=k: _judge(ctx, f, k)) for f, k in jobs])

    # 6. completeness of the enumeration (counting only) and classification of the judge's rejections
    a = len(alpha["alpha"])
    want_split = sum(a ** k for k in range(alpha["maxlen"] + 1))
    want_single = 0
    for k in keys:
        for v in [None] + vals[k]:
            for m in [None] + msgs:
                lv, lm = len(v or []), len(m or [])
                if any(lv <= w[0] and lm <= w[1] for w in plan["singles"]):
                    want_single += 1
    want_rt = want_single + len(pool2) ** 2 + (0 if quick else len(pool3) ** 3)
    got = {"split": 0, "splitr": 0, "rt": 0}
    seen = {"split": set(), "splitr": set(), "rt": set()}
    nontrivial = {"split": 0, "splitr": 0, "rt": 0}
    fast = slow = quoted_comma_lists = 0
    samples = []
    bad_total = 0
    per_class = {}
    for f, kind, n, bads in results:
        rows = common.read_ndjson(f)
        if n != len(rows):
            raise MachineryError("judge saw %d of %d records of %s" % (n, len(rows), f))
        got[kind] += n
        for r in rows:
            if kind == "rt":
                key = json.dumps([r["rules"], r["mode"] if len(r["rules"]) > 1 else ""], sort_keys=True)
                nt = len(r["rules"]) > 1 or any(
                    (x["hm"] and ("=" in x["m"] or _bytelen(x["m"]) == 1 or "'" in x["m"])) or (x["hv"] and "'" in x["v"]) for x in r["rules"])
                if "'" in r["joined"] and "," in r["joined"]:
                    quoted_comma_lists += 1
            else:
                key = "".join(r["in"])
                nt = "'" in r["in"] and "," in r["in"]
                if "'" in r["in"]:
                    slow += 1
                else:
                    fast += 1
            if key not in seen[kind]:
                seen[kind].add(key)
                nontrivial[kind] += 1 if nt else 0
        if rows and len(samples) < 6:
            samples.append(rows[len(rows) // 3])
        for b in bads:
            bad_total += 1
            rec = rows[b["i"] - 1]
            laws = sorted(b["laws"])
            if "domain" in laws:
                raise MachineryError("harness produced a record outside the spec's domain: %s" % json.dumps(rec)[:400])
            if kind == "rt" and laws == ["gen"]:
                ctx.note("DRIFT builder output differs from the documented form but still round-trips: %s" % json.dumps(rec["gen"])[:200])
                continue
            laws = [l for l in laws if l != "gen"] or laws
            if kind == "rt":
                sig = dict(src="rt", laws=",".join(laws), cls=_rt_class(rec))
                desc = "rule list %s -> builder %s -> joined %r -> pieces %s -> parsed %s violates %s" % (
                    json.dumps(rec["rules"], ensure_ascii=False), ["".join(g) for g in rec["gen"]], "".join(rec["joined"]),
                    ["".join(p) for p in rec["pieces"]],
                    [("".join(p["k"]), "".join(p["v"]), "".join(p["m"])) for p in rec["parsed"]], laws)
                rep = dict(kind="rt", rules=rec["rules"], mode=rec["mode"])
            else:
                sig = dict(src="split", laws=",".join(laws), balanced=rec["in"].count("'") % 2 == 0)
                desc = "ValidNamesSplit(%r) = %s violates %s" % ("".join(rec["in"]), ["".join(p) for p in rec["out"]], laws)
                rep = dict(kind="split", input=rec["in"], text=rec.get("txt"))
            ck = json.dumps(sig, sort_keys=True)
            per_class[ck] = per_class.get(ck, 0) + 1
            if per_class[ck] <= 1:
                ctx.candidate(sig, desc, rep)
    if got["split"] != want_split or len(seen["split"]) != want_split:
        raise MachineryError("split window incomplete: %d records, %d distinct, expected %d" % (got["split"], len(seen["split"]), want_split))
    if got["rt"] != want_rt or len(seen["rt"]) != want_rt:
        raise MachineryError("rule-list window incomplete: %d records, %d distinct, expected %d" % (got["rt"], len(seen["rt"]), want_rt))
    if per_class:
        ctx.log("judge rejected %d records in %d classes: %s" % (bad_total, len(per_class), json.dumps(per_class)[:600]))

    total = sum(got.values())
    cov = dict(
        traces_validated_against_impl=total,
        evaluations=total,
        distinct_nontrivial=sum(nontrivial.values()),
        rule="split: every string of length <= %d over %s (+ %d seeded random strings of length <= 24 over a 14-symbol alphabet incl. CJK); "
             "non-trivial = takes the slow path (has a quote) and has a comma. rt: every single rule keys x values x messages in the windows %s, "
             "every pair over Pool2 (%d rules)%s, cycling RM.Set modes once/incr/multi/premulti (multi-field Set whose first field already holds rules); non-trivial = >= 2 rules, or a quote in value/message, "
             "or a message with '=' or of one byte. Distinct by input." % (
                 alpha["maxlen"], "".join(alpha["alpha"]), got["splitr"], plan["singles"], len(pool2),
                 "" if quick else ", every triple over Pool3 (%d rules)" % len(pool3)),
        exhaustive=True,
        split_strings=got["split"], split_fast_path=fast, split_slow_path=slow, split_random=got["splitr"],
        rule_lists=got["rt"], single_rules=want_single, pairs=len(pool2) ** 2, triples=0 if quick else len(pool3) ** 3,
        lists_with_quote_and_comma=quoted_comma_lists,
        judge_rejections=bad_total,
        mc_split_states=mcs[0].distinct, mc_roundtrip_states=mcs[1].distinct,
        sanity_pinned_parser_rejected_by_tlc=mcs[2].invariant_violated,
        samples=samples,
    )
    return ctx.finish("model_checking", cov, C14_ASSUMPTIONS)


C14_ASSUMPTIONS = [
    "documented rule = key ['=' value] ['|' message]; values: non-empty, no '|' (the first '|' starts the message; ParseValidNameKV is not quote-aware - re patterns with '|' are handled by Re itself and not generated here), not starting with '=' (GenValidKV treats a leading '=' as the connector), quotes balanced, commas only inside quotes; for re the undocumented compatibility shape x'... (quote in 2nd position) is not generated",
    "messages: non-empty, quotes balanced, commas only inside single-quoted segments (README 4.2.1 item 3); explicit empty message GenValidKV(k, v, \"\") not generated",
    "'same value' is modulo the builder's documented wrapping: in/include -> (v), re -> 'v' unless v already starts with a quote",
    "splitter on strings with an unbalanced quote: only NoLoss is required (QuotedCommasKept / split-at-outer-commas are asserted for balanced strings only)",
    "NoLoss allows the loss of exactly one trailing comma (the property's own wording); the nil result for the empty string counts as no pieces",
    "a builder output that differs from the documented form but still round-trips is a DRIFT note, not a violation",
    "CJK is represented by one character per text, drawn from U+4E2D and five characters whose code point ends in the byte of a separator (U+5927, U+4E2C, U+4E3D, U+4E7C, U+4E5C); wire symbols Z/S/M stand for CJK characters, the generated alphabets never contain these letters",
    "rule lists of 2 and 3 rules are drawn from the pools Pool2 / Pool3 of spec/RuleText.tla (not from the full single-rule window)",
    "escaped quotes inside re patterns followed by a comma (D19) are not generated (owned by the formats family)",
]


_Z = ["中", "大", "丬", "丽", "乼", "乜"]


def _wire_text(syms):
    """harness/cmd/vh/ruletext.go ruletextText: the CJK character standing for Z is chosen by an FNV-1a hash of the text"""
    h = 2166136261
    for s in syms:
        for b in s.encode("utf-8"):
            h = ((h ^ b) * 16777619) & 0xFFFFFFFF
    z = _Z[h % len(_Z)]
    return "".join(z if s == "Z" else {"S": "说", "M": "明"}.get(s, s) for s in syms)


def _replay_c14(ctx, vh):
    r = json.load(open(ctx.replay))["replay"]
    out = ctx.path("rp")
    if r["kind"] == "split":
        text = r.get("text") or "".join(_wire_text([s]) for s in r["input"])
        ctx.run_vh(vh, ["ruletext-split"], stdin_data=json.dumps(dict(shards=1, out=out, inputs=[text])))
        kind = "split" if all(s in "a,'=|~" for s in r["input"]) else "splitr"
    else:
        ctx.run_vh(vh, ["ruletext-rt"], stdin_data=json.dumps(dict(shards=1, out=out, lists=[dict(rules=r["rules"], mode=r["mode"])])))
        kind = "rt"
    f, _, n, bads = _judge(ctx, out + "-0.ndjson", kind)
    rows = common.read_ndjson(f)
    for b in bads:
        laws = sorted(l for l in b["laws"] if l != "gen")
        if laws:
            ctx.candidate(dict(src=kind, laws=",".join(laws)), "replayed case still violates %s: %s" % (laws, json.dumps(rows[b["i"] - 1], ensure_ascii=False)[:500]), r)
    return ctx.finish("model_checking", dict(evaluations=n, distinct_nontrivial=0, traces_validated_against_impl=n, samples=rows[:1], replay=True))


# =====================================================================================================  C15

MSG_VARIANTS = [
    dict(ascii=["bad value A", "bad value B", "bad value C", "bad value D"],
         cjk=["甲处错误", "乙处错误", "丙处错误", "丁处错误"],
         mixed=["“A”项错误x1", "“B”项错误x2", "“C”项错误x3", "“D”项错误x4"],
         latin=["Größe fehlt A", "Größe fehlt B", "Größe fehlt C", "Größe fehlt D"]),
    dict(ascii=["must be ok (A)", "must be ok (B)", "must be ok (C)", "must be ok (D)"],
         cjk=["请输入正确的值甲", "请输入正确的值乙", "请输入正确的值丙", "请输入正确的值丁"],
         mixed=["ß→A值不合法!", "é→B值不合法!", "かC值不合法!", "ЖD值不合法!"],
         latin=["valeur ≤ 5 attendue (A) ✓", "valeur ≤ 5 attendue (B) ✓", "valeur ≤ 5 attendue (C) ✓", "valeur ≤ 5 attendue (D) ✓"]),
    dict(ascii=["nA", "nB", "nC", "nD"],
         cjk=["甲错", "乙错", "丙错", "丁错"],
         mixed=["1号字段: 长度应在 2~4 之间", "2号字段: 长度应在 2~4 之间", "3号字段: 长度应在 2~4 之间", "4号字段: 长度应在 2~4 之间"],
         latin=["ошибка А 😀", "ошибка Б 😀", "ошибка В 😀", "ошибка Г 😀"]),
    # messages that end in ';' or in blanks (the clause separator is "; ": neither contains it) and that contain '%'
    dict(ascii=["A is required;", "B is required;", "C is required;", "D is required;"],
         cjk=["甲必填;", "乙必填;", "丙必填;", "丁必填;"],
         mixed=["100% 必填 A ", "100% 必填 B ", "100% 必填 C ", "100% 必填 D "],
         latin=["≥ 50% (A) ;", "≥ 50% (B) ;", "≥ 50% (C) ;", "≥ 50% (D) ;"]),
    dict(ascii=["%d items %s A", "%d items %s B", "%d items %s C", "%d items %s D"],
         cjk=["%甲处%v错误", "%乙处%v错误", "%丙处%v错误", "%丁处%v错误"],
         mixed=["A项 %!d(MISSING) 错误", "B项 %!d(MISSING) 错误", "C项 %!d(MISSING) 错误", "D项 %!d(MISSING) 错误"],
         latin=["é%", "ß%", "ø%", "ñ%"]),
    # the first and the last character of the basic CJK block (U+4E00, U+9FA5) as the only CJK characters
    dict(ascii=["value A?", "value B?", "value C?", "value D?"],
         cjk=["龥一", "一龥", "龥龥", "一一"],
         mixed=["name 龥 A", "name 一 B", "龥 C", "D 一"],
         latin=["naïve A", "naïve B", "naïve C", "naïve D"]),
    # messages that contain a label word themselves: they are shown verbatim behind the label the library adds, and the
    # explanation of the clause starts behind that FIRST label
    dict(ascii=["see the explain: section A", "see the explain: section B", "explain: twice C", "D explain:"],
         cjk=["参见说明: 第甲节", "参见说明: 第乙节", "说明: 丙重复", "丁说明:"],
         mixed=["A explain: 与 说明: 并存", "B 说明: 与 explain: 并存", "explain: C项 说明:", "说明: D explain:"],
         latin=["voir explain: é A", "voir explain: é B", "explain: ü C", "Ж D explain:"]),
]
LABELS = {"zh": "说明: ", "en": "explain: "}
SEP = "; "


def _variant(ctx, cid):
    """the message family of case cid: every family is used in every run, which case gets which rotates with the seed"""
    return (cid + ctx.seed) % len(MSG_VARIANTS)


def _msg(ctx, m):
    if m["shape"] == "none":
        return None
    return MSG_VARIANTS[getattr(ctx, "mv", ctx.seed % len(MSG_VARIANTS))][m["shape"]][m["pos"] - 1]


def _paths(ctx):
    d = ctx.path("fsdir")
    os.makedirs(d, exist_ok=True)
    f = os.path.join(d, "plainfile")
    open(f, "w").write("x")
    return {"DIR": d, "FILE": f, "MISSING": os.path.join(d, "no-such-entry"), "EMPTY": ""}


def _abstract_clauses(err):
    """error text -> [(label, explanation text)]: clause = [path ]input "<echo>", <label> <text> | free text (unlabelled)"""
    out = []
    for c in err.split(SEP):
        label, text = "none", c
        for lab, pre in LABELS.items():
            i = c.find(pre)
            if i != -1 and (label == "none" or i < cut):
                label, text, cut = lab, c[i + len(pre):], i
        out.append((label, text))
    return out


def _cjk(s):
    """the wire symbols @Z / @Y of Explain!Sweep: one CJK character each"""
    return s.replace("@Z", "男").replace("@Y", "性")


def _concrete_case(ctx, cid, carrier, grp, clauses, paths):
    ctx.mv = _variant(ctx, cid)
    fields = [dict(rule=c["rule"], arg=_cjk(c["arg"]), input=paths.get(c["input"], c["input"]), msg=_msg(ctx, c["msg"])) for c in clauses]
    return dict(id=cid, carrier=carrier, grp=grp, fields=fields, mv=ctx.mv)


def _expl_text(ctx, e):
    if e["msg"]["shape"] != "none":
        return _msg(ctx, e["msg"])
    return _cjk(e["def"])


def _check_case(ctx, case, exp_clauses, exp_extract, out, meta):
    """compare one real outcome with the contract's expectation; returns list of (sig, desc)"""
    bad = []
    base = dict(carrier=case["carrier"], kinds=meta.get("kinds"), rule=meta.get("rule"), input=meta.get("input"), shape=meta.get("shape"))
    if out["panic"]:
        return [(dict(base, part="validate", what="panic"), "validation panicked: %s (rules %s)" % (out["panic"], out["rules"]))]
    if out["nil"]:
        return [(dict(base, part="clause", what="no-error"), "no error although %d clauses were expected (rules %s)" % (len(exp_clauses), out["rules"]))]
    obs = _abstract_clauses(out["err"])
    if len(obs) != len(exp_clauses):
        return [(dict(base, part="clause", what="count"), "expected %d clauses, error has %d: %r (rules %s)" % (len(exp_clauses), len(obs), out["err"], out["rules"]))]
    texts = []
    for i, ((lab, text), ec) in enumerate(zip(obs, exp_clauses)):
        want = _expl_text(ctx, ec["expl"])
        if ec["label"] == "none":
            if lab != "none":
                bad.append((dict(base, part="clause", what="label", pos=i + 1), "clause %d should be unlabelled: %r" % (i + 1, out["err"])))
            continue
        if want == "*":
            want = text if lab != "none" else want       # wording not specified: free, but it must be labelled
        if lab != ec["label"]:
            bad.append((dict(base, part="clause", what="label", pos=i + 1, clause_rule=ec.get("rule")),
                        "clause %d (rule %r) should carry label %r, has %r: %r" % (i + 1, out["rules"][i] if i < len(out["rules"]) else "group", ec["label"], lab, out["err"])))
        elif text != want:
            bad.append((dict(base, part="clause", what="text", pos=i + 1, clause_rule=ec.get("rule")),
                        "clause %d (rule %r) should show %r, shows %r" % (i + 1, out["rules"][i] if i < len(out["rules"]) else "group", want, text)))
        texts.append(want)
    if bad:
        return bad
    # extractor: exactly the explanation parts of the labelled clauses, in order, joined by the separator; never fails
    want_x = SEP.join(texts)
    if len(texts) != len(exp_extract):
        raise MachineryError("Extract length differs from labelled clauses in case %s" % case["id"])
    if out.get("xchanged"):
        bad.append((dict(base, part="extract", what="changed-after-return"),
                    "the string GetOnlyExplainErr(%r) returned changed after later calls: it read %r, now reads %r" % (out["err"][:300], out["extract"][:200], out["xchanged"][:200])))
    if out["xpanic"]:
        bad.append((dict(base, part="extract", what="panic"), "GetOnlyExplainErr(%r) panicked: %s" % (out["err"], out["xpanic"])))
    elif out["extract"] != want_x:
        how = "empty" if out["extract"] == "" else "trailing-separator" if out["extract"] == want_x + SEP else \
              "dropped-explanations" if out["extract"] in want_x else "garbled"
        bad.append((dict(base, part="extract", what="wrong:" + how, first=exp_clauses[0]["label"]), "GetOnlyExplainErr(%r) = %r, contract: %r" % (out["err"], out["extract"], want_x)))
    return bad


def run_c15(ctx):
    vh = ctx.build_vh()
    quick = ctx.quick()
    if ctx.replay:
        return _replay_c15(ctx, vh)
    mcs = _parallel([
        lambda: ctx.tlc("Explain", "MC_Explain", workers=2, coverage=not quick),
        lambda: _sanity_must_fail(ctx, "Explain", "MC_Explain_pinned", "ExtractCorrect|NoPanic"),
    ])
    if not quick:
        _zero_actions(ctx, "MC_Explain", allowed=("PinnedIter",))   # the pinned loop is exercised by the sanity config
    gen = ctx.tlc("Gen_Explain", "Gen_Explain", workers=1, env={"TIER": ctx.tier})
    seqs, sweep = gen.vecs.get("SEQ", []), gen.vecs.get("SWEEP", [])
    if len(seqs) < 1000 or len(sweep) < 400:
        raise MachineryError("Gen_Explain emitted only %d sequences / %d sweep cases" % (len(seqs), len(sweep)))
    paths = _paths(ctx)
    cases, expect = [], {}
    for s in seqs:
        cid = len(cases)
        fields = [c for c in s["clauses"] if c["kind"] != "grp"]
        cases.append(_concrete_case(ctx, cid, s["carrier"], s["grp"], fields, paths))
        if cid % 61 == 7 and len(fields) >= 2:
            # one clause in front of the others that is longer than 64 KiB (the rejected input is echoed): every rule of
            # the sequence scenarios rejects this input exactly as it rejects "abc"
            cases[-1]["fields"][0]["input"] = "abc" * 23400
        expect[cid] = (s["clauses"], s["expect"], dict(kinds="-".join(s["kinds"]) + ("+grp" if s["grp"] else "")), "seq")
    for w in sweep:
        cid = len(cases)
        cl = dict(rule=w["rule"], arg=w["arg"], input=w["input"], msg=w["msg"])
        cases.append(_concrete_case(ctx, cid, w["carrier"], False, [cl], paths))
        ec = dict(label=w["expect"]["label"], expl=w["expect"]["expl"], rule=w["rule"])
        expect[cid] = ([ec], [w["expect"]["expl"]], dict(rule=w["rule"], input=w["input"], shape=w["shape"]), "sweep")
    inp, outp = ctx.path("explain.in.ndjson"), ctx.path("explain.out.ndjson")
    common.write_ndjson(inp, cases)
    ctx.run_vh(vh, ["ruletext-explain"], stdin_path=inp, stdout_path=outp)
    outs = common.read_ndjson(outp)
    if len(outs) != len(cases):
        raise MachineryError("harness returned %d of %d cases" % (len(outs), len(cases)))
    if os.environ.get("VERIF_RULETEXT_CORRUPT") == "explain":
        o = outs[len(seqs) // 2]
        o["extract"] = o["extract"][:-1]
        ctx.log("CORRUPTED the extractor output of case %d for the binding demonstration" % o["id"])
    per_class = {}
    nbad = 0
    stats = dict(seq=0, sweep=0, mixed_label_orders=0, with_unlabelled=0, custom_msg_cases=0, default_wording_cases=0, free_wording=0)
    samples = []
    for case, o in zip(cases, outs):
        ecl, ex, meta, kind = expect[case["id"]]
        stats[kind] += 1
        labs = [c["label"] for c in ecl]
        if kind == "seq":
            if "zh" in labs and "en" in labs:
                stats["mixed_label_orders"] += 1
            if "none" in labs:
                stats["with_unlabelled"] += 1
        else:
            if meta["shape"] == "none":
                stats["default_wording_cases" if ecl[0]["expl"]["def"] != "*" else "free_wording"] += 1
            else:
                stats["custom_msg_cases"] += 1
        ctx.mv = case["mv"]
        bads = _check_case(ctx, case, ecl, ex, o, meta)
        for sig, desc in bads:
            nbad += 1
            sig = {k: v for k, v in sig.items() if v is not None}
            ck = json.dumps({k: v for k, v in sig.items() if k in ("part", "what", "rule", "input")}, sort_keys=True)
            per_class[ck] = per_class.get(ck, 0) + 1
            if per_class[ck] <= 1:
                ctx.candidate(sig, desc, dict(case=case, clauses=ecl, extract=ex, meta=meta))
        if len(samples) < 5 and case["id"] % 1777 == 5:
            samples.append(dict(case=case, err=o["err"], extract=o["extract"]))
    if per_class:
        ctx.log("%d mismatches in %d classes: %s" % (nbad, len(per_class), json.dumps(per_class, ensure_ascii=False)[:900]))
    nontriv = stats["mixed_label_orders"] + stats["with_unlabelled"] + stats["custom_msg_cases"]
    cov = dict(
        traces_validated_against_impl=len(cases),
        evaluations=len(cases),
        distinct_nontrivial=len({json.dumps([c["carrier"], c["grp"], c["fields"]], sort_keys=True, ensure_ascii=False) for c, _ in zip(cases, outs)
                                 if _nontrivial(expect[c["id"]])}),
        rule="seq: every clause sequence of length 1..4 over {zh pure CJK, zh mixed, en, default wording, unknown rule, rule-writing error} "
             "produced by the library through struct / Var / Url (Map for length 1), with and without a trailing group clause (struct, Url); "
             "sweep: every row of Explain!Sweep x {no message, ASCII, CJK, mixed, non-ASCII without CJK} x carriers. Non-trivial = sequence mixing zh and en labels or "
             "containing an unlabelled clause, or a sweep case with a custom message. Distinct by concrete case.",
        exhaustive=True,
        sequences=stats["seq"], sweep_cases=stats["sweep"], mismatches=nbad, message_variants=len(MSG_VARIANTS), **{k: v for k, v in stats.items() if k not in ("seq", "sweep")},
        mc_states=mcs[0].distinct, sanity_pinned_loop_rejected_by_tlc=mcs[1].invariant_violated,
        samples=samples or [dict(case=cases[0], err=outs[0]["err"])],
    )
    # the text every clause is made of (spec/Echo.tla): StrEscape's buffer mechanism against its contract, clause laws,
    # every vector replayed on the real helpers (differences are DRIFT notes; clause texts are judged above)
    from . import fam_aux
    cov.update(fam_aux.echo(ctx, vh, quick))
    return ctx.finish("model_checking", cov, C15_ASSUMPTIONS)


def _nontrivial(e):
    ecl, _, meta, kind = e
    labs = [c["label"] for c in ecl]
    if kind == "seq":
        return ("zh" in labs and "en" in labs) or "none" in labs
    return meta["shape"] != "none"


C15_ASSUMPTIONS = [
    "messages and inputs never contain the clause separator '; ', a label word ('explain:', '说明:'), a comma, '=' or '|' and are at least 2 bytes long (one-byte messages and '=' in messages are C14's domain)",
    "default wording table = Explain!Sweep (README rule table + the wording of the library's examples); wording for a missing path under file/dir without a message is unspecified (OS error text) and left free, only its English label is required",
    "text of unlabelled clauses (unknown rule, rule-writing error) is free; only the absence of a label is required",
    "the echoed input and the field path of a clause are not part of this property (C02/C04)",
    "clause order across Go map entries is unspecified: Map carries single-clause errors only; group clauses are generated only as the last clause (struct, Url)",
    "either/botheq do not take a custom message (README) and appear only as the trailing group clause with their default wording",
    "exist is swept on the struct carrier only (README: not supported by Var/Map/Url)",
    "all swept inputs are strings (Url carries strings only); file/dir use a scratch directory created by the check",
]


def _replay_c15(ctx, vh):
    r = json.load(open(ctx.replay))["replay"]
    inp = ctx.path("rp.in.ndjson")
    paths = _paths(ctx)                # scratch paths of the original run are gone: re-create them
    if r["meta"].get("input") in paths:
        r["case"]["fields"][0]["input"] = paths[r["meta"]["input"]]
    common.write_ndjson(inp, [r["case"]])
    out = ctx.run_vh(vh, ["ruletext-explain"], stdin_path=inp).stdout
    o = json.loads(out.splitlines()[0])
    ctx.mv = r["case"].get("mv", ctx.seed % len(MSG_VARIANTS))
    for sig, desc in _check_case(ctx, r["case"], r["clauses"], r["extract"], o, r["meta"]):
        ctx.candidate({k: v for k, v in sig.items() if v is not None}, "replayed: " + desc, r)
    return ctx.finish("model_checking", dict(evaluations=1, distinct_nontrivial=0, traces_validated_against_impl=1, samples=[dict(case=r["case"], out=o)], replay=True))
