"""C13 - validation is total: bad input or bad rules yield an error, never a crash.

Oracle: spec/Total.tla (contract: a call is followed by Return(nil|error); no Panic action) - recorded calls of the
real entry points are judged by TLC against spec/Trace_Total.tla. See lib/fam_total.py for the pipeline.
"""
import json
import os
from concurrent.futures import ThreadPoolExecutor

from . import common
from . import fam_total as ft
from .common import MachineryError


def run(ctx):
    vh = ctx.build_vh()
    if ctx.replay:
        return ft.replay(ctx, vh)
    if os.environ.get("VERIF_SELFTEST"):      # dev: binding demonstration, not part of the registered check
        return ft.selftest(ctx, vh)
    quick = ctx.quick()

    # 1+2. TLC: catalogue factors + mechanism predictions, then the design checks (in parallel with the harness runs)
    consts, pred = ft.generate(ctx)
    maxlen = 3 if quick else 4
    nrand = 25000 if quick else 250000

    cpath = ctx.path("total-consts.json")
    json.dump(dict(alphabet=consts["alphabet"], names=consts["names"], forms=consts["forms"], vals=consts["vals"],
                   eps=consts["eps"], directed=consts["directed"], maxlen=consts["batchmaxlen"][ctx.tier]), open(cpath, "w"))
    spath = ctx.path("total-shapes-in.ndjson")
    n_shape_calls = ft.write_shape_calls(ctx, consts, spath)

    def harness(job):
        name, args, stdin = job
        outp = ctx.path("total-%s.ndjson" % name)
        r = ctx.run_vh(vh, args, stdin_path=stdin, stdout_path=outp, timeout=3000)
        return name, outp, r.stderr

    with ThreadPoolExecutor(max_workers=5) as ex:
        f_mc = ex.submit(ft.model_check, ctx, consts)
        f_sb = ex.submit(ft.scan_binding, ctx, vh)
        f_h = [ex.submit(harness, j) for j in (
            ("shapes", ["total-calls", "-slice", "400"], spath),
            ("rules", ["total-rules", "-consts", cpath, "-workers", "4"], None),
            ("random", ["total-random", "-n", str(nrand), "-workers", "4"], None))]
        recs = dict((n, (p, err)) for n, p, err in (f.result() for f in f_h))
        mc = f_mc.result()
        sb = f_sb.result()
    ctx.log("model checking: %s; predictions (guards left out): %s" % (
        ", ".join("%s %d states" % (m["cfg"], m["states"]) for m in mc["mc"]),
        "; ".join("%s -> %s (%s)" % (p["cfg"], p["violated"], p["witness"]) for p in mc["predictions"])))

    totals = {}
    for name in ("rules", "random"):
        try:
            totals[name] = json.loads(recs[name][1].strip().splitlines()[-1])
        except Exception:
            raise MachineryError("harness %s printed no totals: %r" % (name, recs[name][1][-500:]))

    corrupt = os.environ.get("VERIF_TOTAL_CORRUPT")   # dev: show that a corrupted recording turns the check red
    if corrupt:
        lines = open(recs["shapes"][0]).read().splitlines()
        k = [i for i, ln in enumerate(lines) if ln.startswith('{"e":"return"')][10]
        e = json.loads(lines[k])
        if corrupt == "panic":
            e = dict(e="panic", id=e["id"], msg="planted by VERIF_TOTAL_CORRUPT", site="nowhere", key="planted")
        elif corrupt == "out":
            e["out"] = "ok"
        else:
            raise MachineryError("VERIF_TOTAL_CORRUPT must be panic|out")
        lines[k] = json.dumps(e)
        open(recs["shapes"][0], "w").write("\n".join(lines) + "\n")

    # 4. code -> model: every slice of every recording must be consumed by Trace_Total
    files = []
    files += ft.split_trace(recs["shapes"][0], 4 if quick else 8, ctx.path("tr-shapes"))
    files += ft.split_trace(recs["rules"][0], 1, ctx.path("tr-rules"))
    files += ft.split_trace(recs["random"][0], 1, ctx.path("tr-random"))
    results = ft.validate(ctx, files, workers=4 if quick else 6)

    # completeness of the shape run + mechanism-level comparison (DRIFT only)
    seen = 0
    shape_err = 0
    drift = 0
    panics_logged = 0
    shape_panics = 0
    samples = {}
    rc_of = consts["shaperules"]
    accepted_slices = 0
    slices = 0
    events = 0
    for fn, lines, acc, res in results:
        accepted_slices += len(acc)
        events += len(lines)
        pending = None
        for ln in lines:
            e = json.loads(ln)
            if e["e"] == "reset":
                slices += 1
            elif e["e"] == "call":
                pending = e
                if e["src"] == "shapes":
                    seen += 1
            elif e["e"] == "panic":
                panics_logged += 1
                if pending is not None and pending["src"] == "shapes":
                    shape_panics += 1
            elif e["e"] == "return" and pending is not None:
                samples.setdefault(pending["src"], [])
                want = pending["src"] != "shapes" or (len(pending["shape"]) >= 3 and any(t.startswith("nil") for t in pending["shape"])
                                                      and not any(x["call"]["ep"] == pending["ep"] for x in samples["shapes"]))
                if len(samples[pending["src"]]) < 4 and want:
                    samples[pending["src"]].append(dict(call=ft.strip_call(pending), text=pending.get("text"), desc=pending.get("desc"),
                                                        out=e["out"], msg=e.get("msg", "")[:120]))
                if pending["src"] == "shapes":
                    if e["out"] == "error":
                        shape_err += 1
                    allowed = pred.get((pending["ep"], tuple(pending["shape"]), rc_of[pending["rule"]]))
                    if allowed is not None and e["out"] not in allowed:
                        drift += 1
                        if drift <= 5:
                            ctx.note("DRIFT mechanism model predicts %s for %s, real code returned %s (%s)" % (
                                sorted(allowed), ft.describe_call(pending), e["out"], e.get("msg", "")[:100]))
    if seen != n_shape_calls:
        raise MachineryError("shape catalogue has %d scenarios, the recording %d call events" % (n_shape_calls, seen))
    nb_rules = len(consts["eps"]) * len(consts["vals"]) * len(consts["names"]) * len(consts["forms"])
    if totals["rules"]["batches"] != nb_rules:
        raise MachineryError("rule enumeration ran %d batches, expected %d" % (totals["rules"]["batches"], nb_rules))
    if totals["random"]["calls"] != 4 * nrand:
        raise MachineryError("random run made %d calls, expected %d" % (totals["random"]["calls"], 4 * nrand))
    if drift:
        ctx.note("DRIFT total: %d shape scenarios outside the mechanism's predicted outcome set (no verdict)" % drift)

    # 5. classify rejected slices
    info = ft.classify(ctx, results, {"shapes": 0, "rules": 1, "random": 2})

    rules_calls = totals["rules"]["calls"]
    rules_err_eq = 0
    for fn, lines, acc, res in results:
        if "tr-rules" in fn:
            for ln in lines:
                if ln.startswith('{"calls"') or '"e":"batch"' in ln:
                    b = json.loads(ln)
                    if b.get("e") == "batch" and b.get("form") == "eq":
                        rules_err_eq += b["err"]
    evaluations = n_shape_calls + rules_calls + totals["random"]["calls"]
    cov = dict(
        evaluations=evaluations,
        distinct_nontrivial=shape_err + rules_err_eq,
        rule="every call is one real entry-point call under recover(). shapes: TLC-printed factors, product enumerated "
             "(chains of constructor tokens x rules x 4 entry points); rules: 34 names x {name=arg, name+arg} x every "
             "argument string of length <= %d over the 12-symbol alphabet + %d directed longer arguments x 3 value kinds (string, "
             "int, slice) x 4 entry points, and the same with arguments of length <= 2 on three strings aimed at the rules "
             "that scan the value (40 characters needing escapes, 900 bytes, multi-byte text); random: seeded run-time synthesised types/values x random rule bytes. non-trivial = the call "
             "took an error path (returned an error); counted as distinct only for shape scenarios and name=arg rule "
             "texts (name+arg texts can coincide with name=arg texts, random scenarios can repeat - both left out)" % (
                 maxlen, consts["ndirected"]),
        shape_calls=n_shape_calls, shape_errors=shape_err,
        rule_calls=rules_calls, rule_errors=totals["rules"]["errors"], rule_batches=nb_rules, rule_maxlen=maxlen,
        random_calls=totals["random"]["calls"], random_errors=totals["random"]["errors"],
        panics_counted=totals["rules"]["panics"] + totals["random"]["panics"] + shape_panics,
        panics_logged_individually=panics_logged,
        states=ctx.states, transitions=ctx.transitions,
        traces_validated_against_impl=accepted_slices, trace_slices=slices, trace_events=events,
        mechanism_predictions=len(pred), mechanism_drift=drift, scanner_binding=sb,
        model_runs=mc["mc"], guard_omission_predictions=mc["predictions"],
        exhaustive=True,
        samples=[samples.get("shapes", []), samples.get("rules", []), samples.get("random", [])],
    )
    return ctx.finish("exploration", cov, [
        "coverage-guided fuzzing is NOT used (outside the technique family): the space is explored by the TLC-defined "
        "catalogue (exhaustive within its bounds) and a seeded random generator only",
        "excluded by the property: cyclic object graphs (cannot arise: types are synthesised bottom-up, pointers always "
        "point to fresh values), user callbacks (none registered), re-use of a consumed validator (every call uses the "
        "package-level functions Struct/Var/Map/Url which create their own validator)",
        "outcome alphabet is {nil, error}: which of the two is returned is left open by the contract (the mechanism "
        "model's prediction is compared too, but a difference is only a DRIFT note)",
        "bulk calls are aggregated: one batch record per (entry point, value, rule name, form) whose counts TLC checks "
        "(calls = size of the argument space, nil + err = calls, panics = 0); every panic is additionally logged as an "
        "individual call/panic pair (at most two per panic site and message class)",
        "rule text reaches Struct through an RM override on a fixed struct type (and through tags of reflect.StructOf types "
        "in the shape and random runs), Var as its rule argument, Map/Url through RM{\"k\": rule}",
        "the scanner model (part b of Total.tla) is additionally compared with the code by calling the exported rule "
        "functions To/In/Re/Datetime and ParseValidNameKV directly on every rule text of length <= 3; these direct calls "
        "are not among the four entry points, so a difference or panic there is a DRIFT note, never a verdict",
        "file/dir rules stat the local file system; a panic inside the Go runtime or reflect caused by the library counts, "
        "one inside the harness would be reported as site outside-library",
        "Go scheduling: harness workers call the library concurrently (4 goroutines) - the library's pools are shared",
    ])
