"""C05 - format and content rules accept exactly their documented language.

1. MC_Formats: TLC checks, on every string up to a bound over a small alphabet, that the recognisers of spec/Formats.tla
   (contract, written from the documentation) agree with a second, mechanism-level formulation (character automata of the
   patterns, the per-character quote-aware splitter) - a design check of the oracle itself.
2. Gen_Formats (model -> code): TLC enumerates exhaustive windows (all short numeric strings, every calendar day of four
   years with the out-of-range neighbours, every separator triple, every one-character replacement of a phone number).
3. The harness generates, per rule, members by grammar, all/sampled single-character edits of members, grammar-directed
   near misses, random strings, numeric and collection inputs; runs the real rule (valid.Var) on everything of 2 and 3
   and records (rule, arg, kind, input, violated) plus the delegated platform predicate (json / regexp / file system).
4. Judge_Formats (TLC, constant mode, sharded over <= 4 processes) judges every record against Formats!Verdicts.
5. TimeFmt (the layout builder GetTimeFmt behind year / year2month / date / datetime): TLC checks its fold against the
   contract on every int8 mask x every separator tuple and prints the expected layout; each is compared with the real one.
"""
import json
import os
from concurrent.futures import ThreadPoolExecutor

from . import common, fam_aux, fam_formats as ff
from .common import MachineryError

ASSUMPTIONS = [
    "observable: the rule counts as violated iff valid.Var(value, rule) returns a non-nil error (any clause) or panics",
    "only non-empty values: no empty string, zero number, empty/nil collection or all-zero array is generated (the rules skip them by contract C03)",
    "carve-out (spec answers 'either'): IPv4-mapped IPv6 text (any valid IPv6 text with a group ffff) under ipv4 / ipv6",
    "carve-out (spec answers 'either'): datetime with a fractional-second tail [.,]digits, with a one-digit hour, and date rules whose input has a run of spaces where the separator is a space (leniencies of the platform time parser the documentation does not mention)",
    "carve-out (spec answers 'either'): signed numerals (+1, -1, -1.5) under int / ints / float on strings, negative elements under ints on numeric collections",
    "carve-out (spec answers 'either', not generated): float on integer kinds, int on float kinds, ints / unique on a scalar number, string rules (phone, email, idcard, ip*, year*, date*, re, json, prefix, suffix, file, dir, include) on non-string kinds, in on collections",
    "carve-out (not generated; spec answers 'either'): separators containing letters, digits, quotes, '|' or non-ASCII; quoted separators for ints; more than three datetime separators",
    "carve-out (not generated; spec answers 'either'): option lists with an empty option, an option containing '|', a quote that is not one protecting pair around the whole option, an unquoted ','; empty prefix / suffix argument",
    "carve-out (not generated): re patterns that are empty, invalid for the platform, contain an unescaped quote or end in an escaped backslash; custom messages only on re (three or more characters, no ',' '=' or quotes)",
    "delegated languages: json, re matching, file, dir are 'what the platform predicate says' (json.Valid, regexp.MatchString on the intended pattern, os.Stat); the harness logs the predicate and the spec checks polarity and, for re, that the pattern the documented grammar extracts is the intended one",
    "numbers are handed over by their canonical decimal rendering, chosen by the generator by construction (integers without leading zeros; fractions without trailing zeros and few enough digits to be exact), not computed with the library",
    "inputs are valid UTF-8, at most 60 code points; bool collections are not generated (valid.Var does not accept bool: D18, owned by C03/C18)",
    "file / dir inputs are paths relative to a fixture tree created by the harness in its scratch directory",
]

WINDOWS_RULE = ("generated per rule: members by grammar, every single-character deletion / transposition / doubling and every replacement / insertion of a "
                "34-character 'hot' alphabet (digits, pattern metacharacters, separators, quote, newline, CJK) at every position of the first member "
                "(sampled for further members), grammar-directed near misses (field just out of range, wrong width, swapped / foreign separators, "
                "one bad piece first / middle / last), random strings over a 68-character alphabet incl. CJK, fullwidth and Arabic digits, emoji, "
                "control characters; numeric scalars and slices/arrays of 10 integer, 2 float types and string; TLC-enumerated exhaustive windows. "
                "distinct_nontrivial = distinct records with a decided verdict that are members (satisfied) or were produced as an edit / near miss / "
                "collection / number / window element and are violated (random strings that are simply violated are not counted)")


def mc(ctx, quick):
    res = ctx.tlc("MC_Formats", "MC_Formats" if not quick else "MC_Formats_quick", workers=4, coverage=not quick, timeout=1500)
    if not quick and res.coverage_zero:
        raise MachineryError("vacuous: actions never taken in MC_Formats: %s" % res.coverage_zero[:5])
    if not quick:
        # reachability companion of SplitAgree (P => Q): the deliberately false invariant ~P must be violated
        neg = ctx.tlc("MC_Formats", "MC_Formats_reach", workers=2, expect_ok=False, timeout=600, count=False)
        if not neg.invariant_violated:
            raise MachineryError("vacuous: no string with a quoted, documented option list is reachable in MC_Formats")
    return res


def run(ctx):
    # anything unexpected (OS errors under load, unparsable tool output, ...) is a machinery error, never a verdict
    try:
        return run_checked(ctx)
    except MachineryError:
        raise
    except Exception as e:  # noqa: BLE001
        import traceback
        raise MachineryError("unexpected %s: %s\n%s" % (type(e).__name__, e, traceback.format_exc()[-3000:]))


def run_checked(ctx):
    vh = ctx.build_vh()
    quick = ctx.quick()
    if ctx.replay:
        return replay(ctx, vh)

    # 1. design check of the oracle (runs beside the conformance part; joined before the verdict)
    ctx.spec_dir()  # created here, before any thread uses it
    pool = ThreadPoolExecutor(max_workers=1)
    mcfut = pool.submit(mc, ctx, quick)

    # 2. model -> code windows
    gen = ctx.tlc("Gen_Formats", "Gen_Formats", workers=1, env={"GEN_STRLEN": 4 if quick else 5}, timeout=900)
    vecs = gen.vecs.get("VEC", [])
    if len(vecs) < 5000:
        raise MachineryError("Gen_Formats emitted only %d vectors" % len(vecs))
    wins = {}
    for i, v in enumerate(vecs):
        wins[v["win"]] = wins.get(v["win"], 0) + 1
        v["id"] = 10 ** 7 + i
    files = [ff.run_vectors(ctx, vh, vecs, "win")]

    # 3. generated inputs (dealt over several record files)
    scale = 3 if quick else int(os.environ.get("VERIF_FORMATS_SCALE", "16"))
    shards = 4 if quick else 7
    r = ctx.run_vh(vh, ["formats-gen", "-scale", str(scale), "-shards", str(shards), "-out", ctx.path("gen"),
                        "-full", "900" if quick else "1100", "-sample", "80" if quick else "100",
                        "-fs", ctx.path("formats-fs-gen")])
    ctx.log((r.stderr or "").strip().splitlines()[-1] if r.stderr else "formats-gen done")
    files += [ctx.path("gen.%d.ndjson" % i) for i in range(shards)]

    # dev knob to demonstrate the binding: flip one recorded verdict -> the judge must object
    corrupt = os.environ.get("VERIF_FORMATS_CORRUPT")
    if corrupt:
        lines = open(files[1]).read().splitlines()
        k = int(corrupt) % len(lines)
        rec = json.loads(lines[k])
        rec["violated"] = not rec["violated"]
        lines[k] = json.dumps(rec, ensure_ascii=False, separators=(",", ":"))
        open(files[1], "w").write("\n".join(lines) + "\n")
        ctx.log("CORRUPTED one logged field: record %d (%s): violated flipped to %s" % (rec["id"], ff.show(rec), rec["violated"]))

    # 4. TLC judges every record
    all_codes = ff.judge_files(ctx, files, parallel=4)
    t = ff.Tally()
    for f, codes in zip(files, all_codes):
        t.add_file(f, codes)
    nbad, classes = t.report(ctx)
    stats = t.stats

    # non-vacuity: every rule saw decided members and decided non-members
    missing = [x for x in ff.ALL_RULES if x not in stats]
    if missing:
        raise MachineryError("no records for rules %s" % missing)
    for rule in ff.ALL_RULES:
        st = stats[rule]
        if st["satisfied"] + st["broken"] < 3 or st["violated"] + st["broken"] < 3:
            raise MachineryError("vacuous: rule %s has %d satisfied / %d violated decided records" % (rule, st["satisfied"], st["violated"]))

    # 5. the layout builder behind the date rules (spec/TimeFmt.tla): mechanism => contract on every mask x separators,
    #    every vector replayed on the real GetTimeFmt (differences are DRIFT notes; the rules' verdicts are judged above)
    tf = fam_aux.timefmt(ctx, vh, quick)

    mcres = mcfut.result()
    pool.shutdown()
    samples = [t.samples[k] for k in sorted(t.samples)]
    if t.silent_sample:
        samples.append(t.silent_sample)
    cov = dict(
        evaluations=t.n,
        distinct_nontrivial=len(t.distinct),
        rule=WINDOWS_RULE,
        samples=samples[:30],
        exhaustive=False,
        per_rule=stats,
        tlc_enumerated_windows=wins,
        generated_records=t.n - len(vecs),
        decided_satisfied=t.codes[0],
        decided_violated=t.codes[1],
        documentation_silent=t.codes[2],
        contract_broken=nbad,
        broken_classes=classes,
        mc_states=mcres.distinct, mc_transitions=mcres.generated,
        states=ctx.states, transitions=ctx.transitions,
        judge_processes=len(files),
    )
    cov.update(tf)
    return ctx.finish("exploration", cov, ASSUMPTIONS)


def replay(ctx, vh):
    r = json.load(open(ctx.replay))["replay"]
    vec = dict(r["vec"])
    vec["id"] = 1
    f = ff.run_vectors(ctx, vh, [vec], "replay")
    codes = ff.judge_files(ctx, [f], tag="replay")[0]
    t = ff.Tally()
    t.add_file(f, codes)
    t.report(ctx)
    rec = common.read_ndjson(f)[0]
    ctx.log("replayed %s -> violated=%s, judge code %d" % (ff.show(rec), rec["violated"], codes[0]))
    return ctx.finish("exploration", dict(evaluations=1, distinct_nontrivial=0, rule="replay of one record", samples=[ff.show(rec)], replay=True))
