HOOK_COMMITS = ["70cbc3d"]
NOTES = ("Model-based verification with explicit TLA+ specifications (spec/*.tla), checked by TLC and bound to the code by "
         "replaying TLC-generated transitions/scenarios into the real library and by validating recorded traces of the real "
         "library against trace specs. See DESIGN.md. Exit codes: 0 held, 1 VIOLATION, 2 machinery error (never a verdict).")
ENGINES = [
    dict(name="tlc", path="/opt/veriftools/tla/tla2tools.jar", serves_properties=[], kind_free_text="explicit-state model checker for TLA+ (exhaustive MC, scenario/edge emission, trace validation)"),
    dict(name="vh", path="harness/cmd/vh", serves_properties=[], kind_free_text="Go conformance harness rebuilt from /repo's working tree with -tags verif"),
]
NOT_APPLICABLE = {}
CHECKS = {
    "C01": dict(
        engine="tlc", level="model_checking",
        technique="TLA+ spec Rules.tla: per-kind mechanism (validInputSize/eq transcribed branch by branch) = contract InSet/Measure model-checked on the window; the TLC-emitted verdict for every (rule, bounds, kind, value) of the window replayed through every carrier of the real library; seeded random calls judged by TLC in constant mode (Judge_Rules.tla)",
        text="TLC checks that the transcribed mechanism equals the contract (verdict a function of rule, bounds and measure only) on bounds -3..3 (quick) / -8..8 (thorough) x all 8-bit values; Gen_Rules emits the contract's verdict for 93 800 (quick) / 550 800 (thorough) vectors - 8 rules x all 49 bound pairs (lo>hi included) x 16 kinds, every non-zero int8 and uint8 value, symbolic exterior points for the wide kinds, half-integer floats, 1..6-rune strings over 1/2/3/4-byte alphabets, slices of 1..6 elements - and each is executed on the real library through struct tag, struct rule-map override, Var, Map and Url (383 600 / 2 278 000 calls); 20 000 / 1 000 000 recorded random calls with bounds up to 10^6 and beyond 2^32 at bound-1/bound/bound+1 are judged by TLC against the contract.",
        note="Trusted: TLC, the harness's concretisation of abstract values (order-preserving symbolic points for 64-bit extremes and bounds beyond 2^32). Exhaustive only inside the window; a rule instance counts as violated when it produced one or more clauses. Carve-outs in the evidence assumptions.",
    ),
    "C18": dict(
        engine="tlc", level="model_checking",
        technique="TLA+ spec Rules.tla (carrier-free contract) + Judge_Rules.tla: TLC-emitted verdicts replayed through nine carriers of the real library; recorded (value, rule list) observations of all carriers judged by TLC for mutual agreement and, for interval rules, against the contract",
        text="The contract Violated(rule, lo, hi, measure) has no carrier argument; the 93 800 (quick) / 550 800 (thorough) scalar vectors of the C01 window (plus strings containing & = ? % + #) are sent through struct field, Var, map[string]T, map[string]interface{}, []map[string]T and URL queries with one or many shuffled parameters, raw and percent-encoded (492 800 / 2 964 800 calls) and every carrier must show the model's verdict; 8 000 / 200 000 recorded (value, 1-3 rule list) pairs over 8 interval and 22 fixed-argument format rules are judged by TLC: all carriers must report the same set of violated rules with the same clause bodies.",
        note="Format rules are checked for carrier agreement only (their languages are C05): exploration level for that half. map[string]interface{} is the known finding D14-mapiface (values never unwrapped; cannot be repaired without breaking a pinned test). Raw URL values containing & = ? + % # are outside the domain.",
    ),
    "C10": dict(
        engine="tlc", level="model_checking",
        technique="TLA+ spec LRUConc.tla model-checked with the lock table measured on the real code via the verif hook; recorded concurrent histories of the real cache checked for linearizability by TLC (Trace_LRUConc.tla, silent linearization steps); race detector as run-time monitor",
        text="(1) The lock mode each LRU method holds at its access point and the nested acquisitions (a locked method calling a locked method) are measured through the hook, and LRUConc.tla - which models Go's writer-preferring RWMutex - is model-checked with those tables (no two conflicting accesses overlap, lock sanity, no deadlock, termination, all LRU invariants in every interleaving of 3 processes x 1 call and 2 processes x 2 calls); a predicted race or deadlock is reported only after it is reproduced by a targeted run under the race detector (deadlock: watchdog plus a goroutine parked in the cache mutex). (2) 1 600 (quick) / 16 000 (thorough) concurrent histories of 2-4 goroutines are recorded from the real cache and TLC searches a linearization against the sequential LRU spec for each; long 16-goroutine runs are ordered by under-lock stamps and validated step by step incl. the quiescent state. (3) All runs execute under the Go race detector; panics, deadlock timeouts and capacity/sentinel violations are violations.",
        note="Data-race freedom of memory accesses is monitored by the Go race detector, not by TLC; the TLA+ tools decide the lock protocol (on the measured table) and linearizability of observed histories. Schedules are those the Go scheduler produced in this run.",
    ),
    "C09": dict(
        engine="tlc", level="model_checking",
        technique="TLA+ spec LRU.tla model-checked by TLC; every transition of the model graph replayed into the real cache; recorded traces of the real cache validated against Trace_LRU.tla",
        text="TLC proves the LRU contract (bounded, no duplicates, LRU eviction, callback exactly once, Load returns last stored value, Len never the sentinel) on the complete state graph for 3 keys x 2 values x capacities 0..3; each of the 11 872 transitions is executed on the real cache (result, callbacks, Dump order, Len compared), and every operation sequence up to length 3 (quick) / 4-5 (thorough) plus long random sequences crossing the index-rebuild threshold are recorded from the real cache and accepted or rejected by TLC against the trace spec. Apalache additionally shows the invariants inductive for 4 keys x 2 values x cap 0..4 (any history length).",
        note="Trusted: TLC, the Dump() projection (values encode their key), the Go harness. Capacities/keys beyond the bounds are sampled by the random recordings only.",
    ),
}

CHECKS["C14"] = dict(
    engine="tlc", level="model_checking",
    technique="TLA+ spec RuleText.tla (grammar, builder, per-character splitter with fast/slow path and quote stack, parser with its index searches); mechanism => laws model-checked; the laws NoLoss / QuotedCommasKept / OuterCommasSplit / RoundTrip evaluated by TLC in constant mode (Judge_RuleText.tla) on outputs recorded from the real GenValidKV, RM.Set/Get, ValidNamesSplit, ParseValidNameKV",
    text="TLC model-checks the splitter and parser machines against the laws (44 897 + 22 388 states quick; 324 395 + 132 716 thorough) and a sanity config of the pinned parser must fail. Bound to the code: every string of length <=6 (quick, 55 987) / <=7 (thorough, 335 923) over {a , ' = | ~} plus 3 000 / 30 000 seeded random strings over a 14-symbol alphabet go through the real ValidNamesSplit (fast and slow path both exercised); every single rule over 5 keys x values x messages of <=2-3 symbols over an 11-symbol alphabet (29 900 / 492 401), all pairs of a 160-rule pool (25 600) and, thorough, all triples of a 24-rule pool (13 824) go through GenValidKV -> RM.Set (three calling patterns) -> Get -> ValidNamesSplit -> ParseValidNameKV; TLC judges the laws on all 114 487 / 897 748 recorded outputs.",
    note="Lists of 2-3 rules come from pools, not the full single-rule window. What the splitter does with an unbalanced quote is unconstrained except for NoLoss. Trusted: TLC, the wire alphabet mapping, the Go harness.",
)
CHECKS["C15"] = dict(
    engine="tlc", level="model_checking",
    technique="TLA+ spec Explain.tla: Extract contract, default-wording table and the byte-level extractor loop model-checked (pinned loop must fail in a sanity config); every clause sequence of length <=4 and every rule x message-shape x carrier case is emitted by TLC with its expectation, produced by the real library itself, and clause text and GetOnlyExplainErr output are compared with the expectation",
    text="MC_Explain checks the repaired clause-wise extractor against Extract on all clause sequences (7 464 states). Gen_Explain emits 7 776 clause sequences of length 1..4 over {zh pure CJK, zh mixed, en, default wording, unknown rule, rule-writing error}, each produced by the real library through struct, Var and Url (Map for length 1), with and without a trailing group clause, and 564 sweep cases (36 rule rows incl. both sides of to/oto and missing-path/wrong-kind file/dir x {no message, ASCII, CJK, mixed} x four carriers): the clause must show the message verbatim with the label chosen by the CJK test, the default wording otherwise, and GetOnlyExplainErr(err) must equal the join of the expected explanations. 8 340 cases per run, message strings rotate with the seed.",
    note="Error text -> (label, explanation) abstraction is done by the harness; wording for a missing path without a message is free; messages do not contain the separator, a label word, ',', '=' or '|' (those are C14's domain).",
)
for _e in ENGINES:
    _e["serves_properties"] = sorted(CHECKS)
