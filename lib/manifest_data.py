HOOK_COMMITS = ["70cbc3d"]
NOTES = ("Model-based verification with explicit TLA+ specifications (spec/*.tla), checked by TLC and bound to the code by "
         "replaying TLC-generated transitions/scenarios into the real library and by validating recorded traces of the real "
         "library against trace specs. See DESIGN.md. Exit codes: 0 held, 1 VIOLATION, 2 machinery error (never a verdict).")
ENGINES = [
    dict(name="tlc", path="/opt/veriftools/tla/tla2tools.jar", serves_properties=["C09", "C10"], kind_free_text="explicit-state model checker for TLA+ (exhaustive MC, scenario/edge emission, trace validation)"),
    dict(name="vh", path="harness/cmd/vh", serves_properties=["C09", "C10"], kind_free_text="Go conformance harness rebuilt from /repo's working tree with -tags verif"),
]
NOT_APPLICABLE = {}
CHECKS = {
    "C10": dict(
        engine="tlc", level="model_checking",
        technique="TLA+ spec LRUConc.tla model-checked with the lock table measured on the real code via the verif hook; recorded concurrent histories of the real cache checked for linearizability by TLC (Trace_LRUConc.tla, silent linearization steps); race detector as run-time monitor",
        text="(1) The lock mode each LRU method holds at its access point and the nested acquisitions (a locked method calling a locked method) are measured through the hook, and LRUConc.tla - which models Go's writer-preferring RWMutex - is model-checked with those tables (no two conflicting accesses overlap, lock sanity, no deadlock, termination, all LRU invariants in every interleaving of 3 processes x 1 call and 2 processes x 2 calls); a predicted race or deadlock is reported only after it is reproduced by a targeted run under the race detector (deadlock: watchdog plus a goroutine parked in the cache mutex). (2) 1 600 (quick) / 16 000 (thorough) concurrent histories of 2-4 goroutines are recorded from the real cache and TLC searches a linearization against the sequential LRU spec for each; long 16-goroutine runs are ordered by under-lock stamps and validated step by step incl. the quiescent state. (3) All runs execute under the Go race detector; panics, deadlock timeouts and capacity/sentinel violations are violations.",
        note="Data-race freedom of memory accesses is monitored by the Go race detector, not by TLC; the TLA+ tools decide the lock protocol (on the measured table) and linearizability of observed histories. Schedules are those the Go scheduler produced in this run.",
    ),
    "C09": dict(
        engine="tlc", level="model_checking",
        technique="TLA+ spec LRU.tla model-checked by TLC; every transition of the model graph replayed into the real cache; recorded traces of the real cache validated against Trace_LRU.tla",
        text="TLC proves the LRU contract (bounded, no duplicates, LRU eviction, callback exactly once, Load returns last stored value, Len never the sentinel) on the complete state graph for 3 keys x 2 values x capacities 0..3; each of the 11 872 transitions is executed on the real cache (result, callbacks, Dump order, Len compared), and every operation sequence up to length 3 (quick) / 4-5 (thorough) plus long random sequences crossing the index-rebuild threshold are recorded from the real cache and accepted or rejected by TLC against the trace spec. Apalache additionally shows the invariants inductive for 4 keys x 2 values x cap 0..4 (any history length).",
        note="Trusted: TLC, the Dump() projection (values encode their key), the Go harness. Capacities/keys beyond the bounds are sampled by the random recordings only.",
    ),
}
