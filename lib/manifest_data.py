HOOK_COMMITS = ["70cbc3d"]
NOTES = ("Model-based verification with explicit TLA+ specifications (spec/*.tla), checked by TLC and bound to the code by "
         "replaying TLC-generated transitions/scenarios into the real library and by validating recorded traces of the real "
         "library against trace specs. See DESIGN.md. Exit codes: 0 held, 1 VIOLATION, 2 machinery error (never a verdict).")
ENGINES = [
    dict(name="tlc", path="/opt/veriftools/tla/tla2tools.jar", serves_properties=["C09"], kind_free_text="explicit-state model checker for TLA+ (exhaustive MC, scenario/edge emission, trace validation)"),
    dict(name="vh", path="harness/cmd/vh", serves_properties=["C09"], kind_free_text="Go conformance harness rebuilt from /repo's working tree with -tags verif"),
]
NOT_APPLICABLE = {}
CHECKS = {
    "C09": dict(
        engine="tlc", level="model_checking",
        technique="TLA+ spec LRU.tla model-checked by TLC; every transition of the model graph replayed into the real cache; recorded traces of the real cache validated against Trace_LRU.tla",
        text="TLC proves the LRU contract (bounded, no duplicates, LRU eviction, callback exactly once, Load returns last stored value, Len never the sentinel) on the complete state graph for 3 keys x 2 values x capacities 0..3; each of the 11 872 transitions is executed on the real cache (result, callbacks, Dump order, Len compared), and every operation sequence up to length 3 (quick) / 4-5 (thorough) plus long random sequences crossing the index-rebuild threshold are recorded from the real cache and accepted or rejected by TLC against the trace spec.",
        note="Trusted: TLC, the Dump() projection (values encode their key), the Go harness. Capacities/keys beyond the bounds are sampled by the random recordings only.",
    ),
}
