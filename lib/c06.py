"""C06 - tag injection merges comment tags into struct tags and changes nothing else.

1. MC: spec/Inject.tla (mechanism: areas with offsets of the original bytes, applied from the end) is model-checked against the
   contract of InjectBase.tla (FieldsMerged, OutsideUnchanged on byte offsets, ...); the front-to-back variant must be refuted.
2. Gen_Inject: TLC prints every abstract file of the enumerated windows (+ seeded random longer files) with, per field, the set of
   tag item sequences the contract allows.
3. Each abstract file is concretised into real Go source and processed by file.ParseFile+WriteFile and by the built CLI with
   -f, -d and -p; the result is abstracted (go/parser, order-preserving tag scanner, reflect.StructTag.Lookup) and must be a
   member of the allowed set, with every byte outside the rewritable literals unchanged.
"""
import json

from . import common, fam_inject as fam
from .common import MachineryError


def run(ctx):
    vh = ctx.build_vh()
    cli = ctx.build_cli()
    quick = ctx.quick()
    ctx.spec_dir()          # (created before the parallel TLC jobs start)
    if ctx.replay:
        return replay(ctx, vh, cli)

    # 1. design check (mechanism => contract; the front-to-back variant must be refuted) and
    # 2. scenarios with the contract's expectation - independent TLC processes, run side by side
    if quick:
        mc_tags = ["c06-wide"]
        jobs = [lambda: fam.mc(ctx, "c06-wide", "wide", 2, 1, modes=("d", "f"), workers=2),
                lambda: fam.gen(ctx, "wide", 2), lambda: fam.gen(ctx, "deep", 4), lambda: fam.gen(ctx, "rand", 7, samples=1500, shards=2)]
    else:
        mc_tags = ["MC_Inject", "MC_Inject_deep"]
        jobs = [lambda: fam.mc_static(ctx, "MC_Inject", workers=4, coverage=True), lambda: fam.mc_static(ctx, "MC_Inject_deep", workers=4, coverage=True),
                lambda: fam.gen(ctx, "wide", 3), lambda: fam.gen(ctx, "deep", 5), lambda: fam.gen(ctx, "rand", 8, samples=2000, shards=4)]
    jobs.append(lambda: fam.sanity_must_fail(ctx, "MC_Inject_frontfirst", ["FieldsMergedInv", "OutsideUnchangedInv"]))
    res = fam.parallel(jobs, workers=4 if quick else 6)
    refuted = res[-1]
    cov_actions = None if quick else fam.require_coverage([fam.action_counts(ctx, t) for t in mc_tags], fam.FILE_ACTIONS, "the C06 model-checking runs")
    vecs = fam.dedup([v for part in res[len(mc_tags):-1] for v in part])
    if len(vecs) < 2000:
        raise MachineryError("Gen_Inject emitted only %d files" % len(vecs))
    st = fam.file_stats(vecs)
    numbered = fam.number(vecs, variants=1 if quick else 2)
    fam.corrupt_expectation(ctx, numbered)

    # 3. model -> code
    mism, samp, counters = fam.run_files(ctx, vh, cli, numbered, task="c06", par=4 if quick else 8)
    fam.report_file_mismatches(ctx, mism, "file")
    if counters.get("drift"):
        ctx.note("DRIFT: %d observations satisfy the contract but differ from the mechanism spec's prediction (order of appended/overridden keys)" % counters["drift"])

    samples = []
    for s in samp[:2]:
        samples.append(dict(abstract=dict(segs=s["vec"]["segs"], allowed=[e["allowed"] for e in s["vec"]["exp"]]),
                            source=s["vec"]["conc"]["src"], after_cli_d=s.get("got"), observed_tags=(s.get("obs") or {}).get("tags")))
    if not samples:
        samples = [vecs[len(vecs) // 2]]
    cov = dict(
        states=ctx.states, transitions=ctx.transitions,
        traces_validated_against_impl=counters["observations"],
        evaluations=counters["observations"],
        distinct_nontrivial=st["rewriting"],
        rule="abstract files: every file of <=%d segments over the 24-option 'wide' set, every file of <=%d segments over the 6-option 'deep' set, "
             "%d seeded random chains of <=%d segments over the full option set (all printed by TLC with the allowed results); each concretised %s "
             "and run through library, -f, -d, -p (evaluations = file x mode observations). non-trivial = distinct abstract file in which at least "
             "one field must be rewritten (no allowed result equals the original literal)" % (
                 (2, 4, 1500, 7, "once") if quick else (3, 5, 2000, 8, "twice with different text")),
        abstract_files=st["files"], file_stats=st, concrete_files=len(numbered), harness_counters=counters,
        mc_action_counts=cov_actions, sanity_refuted=refuted,
        exhaustive=True,
        samples=samples,
    )
    return ctx.finish("model_checking", cov, fam.ASSUMPTIONS_C06)


def replay(ctx, vh, cli):
    r = json.load(open(ctx.replay))["replay"]
    if r.get("kind") != "file":
        raise MachineryError("not a C06 replay file")
    mism, _, _ = fam.run_files(ctx, vh, cli, [r["vec"]], task="c06", par=1, tag="replay")
    fam.report_file_mismatches(ctx, mism, "file")
    return ctx.finish("model_checking", dict(evaluations=4, distinct_nontrivial=0, samples=[r["vec"]["conc"]["src"]], replay=True))
